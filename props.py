# Per-property configuration of the solver-based checks (see DESIGN.md §5).

COMMON_STUBS = [
    "sdk.Int/sdk.Uint/math/big.Int methods -> exact SMT Int arithmetic (truncated Quo, Euclidean Mod); the SDK's 255-bit overflow panic is not modelled for derived values (inputs are bounded to +-2^255)",
    "fmt/pkg-errors/sdkerrors formatting -> opaque error values with cause chains; messages are not compared",
    "strconv.Format*/Parse*, Int.String/NewIntFromString -> mutually inverse lazy decimal rendering (digits not encoded)",
    "sync.Mutex/RWMutex/WaitGroup/Once -> no-ops (single-goroutine model)",
]

PROPS = {}

PROPS["C02"] = {
    "jobs": [{
        "pkg": "x/escrow/keeper",
        "files": ["harness/C02/kernel.go"],
        "quick": ["Harness_C02_kernel_1", "Harness_C02_kernel_2", "Harness_C02_kernel_3"],
        "thorough": ["Harness_C02_kernel_1", "Harness_C02_kernel_2", "Harness_C02_kernel_3", "Harness_C02_kernel_4", "Harness_C02_split_2"],
        "opts": {"timeout": 20000},
        "opts_thorough": {"timeout": 60000},
        "reach": {h: ["funded", "overdraft"] for h in ["Harness_C02_kernel_1", "Harness_C02_kernel_2", "Harness_C02_kernel_3", "Harness_C02_kernel_4"]},
    }],
    "bounds": {
        "quick": "settlement kernels: 1..3 concurrently open payments, all balances/rates/gaps unbounded mathematical integers (>=0, rates>0, gap>0); loops unrolled by payment count (unwinding bound 256 never hit)",
        "thorough": "as quick plus 4 payments and the two-step path-independence harness for 2 payments; obligations the solver cannot decide in 60 s are reported as undischarged",
    },
    "stubs": COMMON_STUBS,
    "outside_claim": ["intermediate values beyond 2^255 (the SDK panics)", "more than 4 concurrently open payments per account"],
    "assumptions": ["sdk.Coin code is executed from source on top of the integer model", "one denomination"],
}

C19_VALIDATE = ["Harness_C19_g0", "Harness_C19_g1u0", "Harness_C19_g1u1", "Harness_C19_g1u2", "Harness_C19_g2u1",
                "Harness_C19_version", "Harness_C19_maxgroups", "Harness_C19_maxunits", "Harness_C19_nilunits"]
PROPS["C19"] = {
    "jobs": [{
        "pkg": "x/deployment/types",
        "files": ["harness/C19/validate.go"],
        "quick": C19_VALIDATE,
        "thorough": C19_VALIDATE + ["Harness_C19_g2u2", "Harness_C19_g3u1"],
        "opts": {"timeout": 20000},
        "reach": {h: ["accepted", "rejected"] for h in ["Harness_C19_g1u1", "Harness_C19_g1u2", "Harness_C19_g2u1"]},
    }],
    "bounds": {
        "quick": "group count 0,1,2 with 0..2 symbolic units each (cpu/memory/storage/price unbounded integers incl. negative and >2^64, count any uint32, 3 denoms, names empty or 1 symbolic byte); version length 0/31/32/33; MaxGroupCount and MaxGroupCount+1 groups, MaxGroupUnits and MaxGroupUnits+1 units with concrete valid content; nil cpu/memory/storage",
        "thorough": "as quick plus 2 groups x 2 units and 3 groups x 1 unit",
    },
    "stubs": COMMON_STUBS + ["bech32 address strings -> bijection 'addr:'+20 bytes", "sdk.ValidateDenom -> native regexp on concrete denoms"],
    "outside_claim": ["attribute lists inside resource units (empty here)", "placement requirements (C08)"],
    "assumptions": ["ValidateBasic runs before the handler (SDK ante handler)", "a panic during validation rejects the transaction"],
}
