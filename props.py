# Per-property configuration of the solver-based checks (see DESIGN.md §5).

COMMON_STUBS = [
    "sdk.Int/sdk.Uint/math/big.Int methods -> exact SMT Int arithmetic (truncated Quo, Euclidean Mod); the SDK's 255-bit overflow panic is not modelled for derived values (inputs are bounded to +-2^255)",
    "fmt/pkg-errors/sdkerrors formatting -> opaque error values with cause chains; messages are not compared",
    "strconv.Format*/Parse*, Int.String/NewIntFromString -> mutually inverse lazy decimal rendering (digits not encoded)",
    "sync.Mutex/RWMutex/WaitGroup/Once -> no-ops (single-goroutine model); sync.Map -> insertion-ordered association list per map object",
    "reflect.DeepEqual -> structural equality over slices (nil-ness, length, elements), structs, arrays, pointers and interfaces",
]

PROPS = {}

PROPS["C02"] = {
    "jobs": [{
        "pkg": "x/escrow/keeper",
        "files": ["harness/C02/kernel.go"],
        "quick": ["Harness_C02_kernel_1", "Harness_C02_kernel_2", "Harness_C02_kernel_3"],
        "thorough": ["Harness_C02_kernel_1", "Harness_C02_kernel_2", "Harness_C02_kernel_3", "Harness_C02_kernel_4", "Harness_C02_split_2"],
        "opts": {"timeout": 20000},
        "opts_thorough": {"timeout": 60000},
        "reach": {h: ["funded", "overdraft"] for h in ["Harness_C02_kernel_1", "Harness_C02_kernel_2", "Harness_C02_kernel_3", "Harness_C02_kernel_4"]},
    }],
    "bounds": {
        "quick": "settlement kernels: 1..3 concurrently open payments, all balances/rates/gaps unbounded mathematical integers (>=0, rates>0, gap>0); loops unrolled by payment count (unwinding bound 256 never hit)",
        "thorough": "as quick plus 4 payments and the two-step path-independence harness for 2 payments; obligations the solver cannot decide in 60 s are reported as undischarged",
    },
    "stubs": COMMON_STUBS,
    "outside_claim": ["intermediate values beyond 2^255 (the SDK panics)", "more than 4 concurrently open payments per account"],
    "assumptions": ["sdk.Coin code is executed from source on top of the integer model", "one denomination"],
}

C19_VALIDATE = ["Harness_C19_g0", "Harness_C19_g1u0", "Harness_C19_g1u1", "Harness_C19_g1u2", "Harness_C19_g2u1",
                "Harness_C19_version", "Harness_C19_maxgroups", "Harness_C19_maxunits", "Harness_C19_nilunits"]
PROPS["C19"] = {
    "jobs": [{
        "pkg": "x/deployment/types",
        "files": ["harness/C19/validate.go"],
        "quick": C19_VALIDATE,
        "thorough": C19_VALIDATE + ["Harness_C19_g2u2", "Harness_C19_g3u1"],
        "opts": {"timeout": 20000},
        "reach": {h: ["accepted", "rejected"] for h in ["Harness_C19_g1u1", "Harness_C19_g1u2", "Harness_C19_g2u1"]},
    }],
    "bounds": {
        "quick": "group count 0,1,2 with 0..2 symbolic units each (cpu/memory/storage/price unbounded integers incl. negative and >2^64, count any uint32, 3 denoms, names empty or 1 symbolic byte); version length 0/31/32/33; MaxGroupCount and MaxGroupCount+1 groups, MaxGroupUnits and MaxGroupUnits+1 units with concrete valid content; nil cpu/memory/storage",
        "thorough": "as quick plus 2 groups x 2 units and 3 groups x 1 unit",
    },
    "stubs": COMMON_STUBS + ["bech32 address strings -> bijection 'addr:'+20 bytes", "sdk.ValidateDenom -> native regexp on concrete denoms"],
    "outside_claim": ["attribute lists inside resource units (empty here)", "placement requirements (C08)"],
    "assumptions": ["ValidateBasic runs before the handler (SDK ante handler)", "a panic during validation rejects the transaction"],
}

C12_Q = ["Harness_C12_status_1x1", "Harness_C12_status_1x2", "Harness_C12_status_2x2",
         "Harness_C12_alloc_n1p0", "Harness_C12_alloc_n1p1", "Harness_C12_alloc_n2p0", "Harness_C12_alloc_n2p1"]
PROPS["C12"] = {
    "jobs": [{
        "pkg": "provider/cluster",
        "files": ["harness/C12/inventory.go"],
        "quick": C12_Q,
        "thorough": C12_Q + ["Harness_C12_status_1x3", "Harness_C12_alloc_n2p1r2", "Harness_C12_alloc_n2p2"],
        "opts": {"timeout": 20000},
        "reach": {h: ["granted", "refused"] for h in ["Harness_C12_alloc_n1p0", "Harness_C12_alloc_n2p1"]},
    }, {
        "pkg": "provider/cluster", "files": ["harness/C12/loop.go"], "shims": ["shim.go.tmpl", "shim_loop.go.tmpl"],
        "quick": ["Harness_C12_loop_5"], "thorough": ["Harness_C12_loop_6"], "opts": {"timeout": 20000, "witness": 4},
        "reach": {"Harness_C12_loop_5": ["returned"]},
    }],
    "bounds": {
        "quick": "getStatus: <=2 reservations x <=2 resource records, symbolic cpu/memory/storage in [0,2^62), replica count 1..2, 0..2 endpoints, symbolic allocated flag; reservationAllocateable: <=2 nodes with symbolic available capacity, <=1 pending reservation plus the new one, <=2 records, replica count 1..2, symbolic free ports; the existential placement oracle is expanded over all assignments of the bounded instance; inventoryService.run loop: <=5 environment selects (thorough 6) with <=3 reserve requests (1..2 endpoints each, 2 external ports configured), <=2 releases, 1 status query, <=3 deployment-status events (pending/deployed for 2 orders), inventory refresh ok/failed, shutdown",
        "thorough": "adds 3 records per reservation, 2 pending reservations",
    },
    "stubs": COMMON_STUBS + ["prometheus metrics -> not reached (functions are called directly, not through the event loop)"],
    "outside_claim": ["the commit-level float kernel is covered with C11", "metrics", "Kubernetes inventory fetch", "true multi-goroutine interleavings"],
    "assumptions": ["node inventories carry non-nil cpu/memory/storage"],
}

C17_Q = ["Harness_C17_list_1", "Harness_C17_list_2", "Harness_C17_create_0", "Harness_C17_create_1", "Harness_C17_revoke_1", "Harness_C17_revoke_2",
         "Harness_C17_pages_owner_2", "Harness_C17_pages_owner_3", "Harness_C17_pages_all_2", "Harness_C17_create_1_wide", "Harness_C17_revoke_1_wide", "Harness_C17_list_2_wide", "Harness_C17_revoke_padded"]
PROPS["C17"] = {
    "jobs": [{
        "pkg": "x/cert/keeper",
        "files": ["harness/C17/certs.go", "harness/C17/query.go"],
        "shims": ["shim.go.tmpl", "shim_chain.go.tmpl", "shim_cert.go.tmpl"],
        "quick": C17_Q,
        "thorough": C17_Q + ["Harness_C17_pages_owner_3b", "Harness_C17_pages_all_3", "Harness_C17_list_3", "Harness_C17_create_2", "Harness_C17_list_1_wide"],
        "opts": {"timeout": 20000, "maxbigbytes": 9},
    }],
    "bounds": {
        "quick": "pre-state: 0..2 stored certificates, owners from {A,B}, serial any integer of 0..3 bytes (0, 255, 256, 65535, 65536, 2^24-1 are inside; in the *_wide harnesses 0..9 bytes, so 2^64 and 2^64+k are inside), state valid/revoked; one create or revoke message with symbolic serial, signer A/B, certificate CN A/B/not-an-address; then all 9 listing/lookup paths of the keeper",
        "thorough": "3 stored certificates with 3-byte serials; the 9-byte harnesses are those of the quick tier (3 stored 9-byte certificates left 819 paths undecided in 38 min and are not registered)",
    },
    "stubs": COMMON_STUBS + [
        "KV store -> ordered association list with bytewise order decided by the solver; iterators are snapshots; gas ignored",
        "codec Marshal/Unmarshal -> faithful deep copy (protobuf wire format not encoded)",
        "pem.Decode / x509.ParseCertificate -> certificate tokens carrying (CN, serial); natively real self-signed certificates are generated",
        "bech32 -> bijection 'addr:'+20 bytes",
    ],
    "outside_claim": ["X.509/PEM parsing", "gRPC querier pagination (FilteredPaginate offsets/limits)", "serials longer than the byte bound (2^159 is stated outside: 20 bytes)"],
    "assumptions": ["INV: stored certificates are unique per (owner, serial) — established by the create step checked here", "the signer of a message is the account in its Owner / ID.Owner field (C06)"],
}

ESC_1 = ["Harness_ESC_%s_1" % o for o in ["create", "deposit", "settle", "close", "paycreate", "withdraw", "payclose"]]
ESC_2 = ["Harness_ESC_%s_2" % o for o in ["create", "deposit", "settle", "close", "paycreate", "withdraw", "payclose"]]
CHAIN_STUBS = COMMON_STUBS + [
    "KV store -> ordered association list with bytewise order decided by the solver; iterators are snapshots; gas ignored",
    "codec Marshal/Unmarshal -> faithful deep copy (protobuf wire format not encoded)",
    "sdk.Context -> height, stores, real EventManager, no-op logger",
    "bank keeper -> harness ledger (Go code executed symbolically): AccountToModule fails iff the sender balance is short, ModuleToAccount fails iff the module balance is short; every transfer logged",
    "bech32 -> bijection 'addr:'+20 bytes",
]
def esc_job(owner):
    return {
        "pkg": "x/escrow",
        "files": ["harness/ESC/escrow.go"],
        "shims": ["shim.go.tmpl", "shim_chain.go.tmpl"],
        "quick": ESC_1 + ["Harness_ESC_close_2", "Harness_ESC_payclose_2", "Harness_ESC_settle_2"],
        "thorough": ESC_1 + ESC_2,
        "opts": {"timeout": 20000},
        "owner": owner,
        "reach": {"Harness_ESC_close_1": ["account-close-ok", "account-close-same-block"], "Harness_ESC_payclose_1": ["payment-close-ok", "payment-close-same-block"]},
    }
ESC_BOUNDS = {
    "quick": "escrow keeper, one step from an arbitrary INV pre-state: focus account absent/open/closed/overdrawn with 0..1 payments (close/settle/payment-close also with 2) in any consistent state, a bystander account 't/12' with an open payment, outside-universe remainder R; all balances/rates/deposits unbounded integers in [0,2^100), heights in [1,2^40) with arbitrary gap incl. 0; operations AccountCreate/Deposit/Settle/Close, PaymentCreate/Withdraw/Close with arbitrary arguments",
    "thorough": "all seven operations with up to 2 payments on the focus account",
}
PROPS["C03"] = {"jobs": [esc_job("C03")], "bounds": ESC_BOUNDS, "stubs": CHAIN_STUBS,
    "outside_claim": ["more than 2 payments per account in one step", "x/bank internals"],
    "assumptions": ["INV (DESIGN §4): W well-formedness, C01 sum, C03 record clauses are assumed of the pre-state and re-established of the post-state (induction over histories)", "a failing or panicking operation leaves the state unchanged (SDK transaction semantics)"]}
PROPS["C01"] = {"jobs": [esc_job("C01")] + PROPS["C02"]["jobs"], "bounds": ESC_BOUNDS, "stubs": CHAIN_STUBS,
    "outside_claim": ["x/bank internals, fees, IBC", "handler level (market/deployment) is covered by the chain-step harnesses when registered"],
    "assumptions": PROPS["C03"]["assumptions"]}

CHAIN_H = ["CreateDeployment", "DepositDeployment", "UpdateDeployment", "CloseDeployment", "CloseGroup", "PauseGroup", "StartGroup",
           "CreateBid", "CloseBid", "CreateLease", "WithdrawLease", "CloseLease"]
CHAIN_G2_Q = ["CloseDeployment", "CloseGroup", "PauseGroup", "StartGroup", "CloseBid", "WithdrawLease", "CloseLease"]
def chain_job(owner):
    return {
        "pkg": "zzverif/chain", "pkgname": "zzchain",
        "files": ["harness/CHAIN/chain.go", "harness/CHAIN/inv.go", "harness/CHAIN/step.go", "harness/CHAIN/events.go", "harness/CHAIN/c08.go"],
        "extra_overlays": {"x/market/keeper/zz_verif_export.go": "harness/CHAIN/export_market.go"},
        "shims": ["shim.go.tmpl", "shim_chain.go.tmpl"],
        "quick": ["Harness_CHAIN_%s_12" % h for h in CHAIN_H] + ["Harness_CHAIN_%s_g2" % h for h in CHAIN_G2_Q],
        "thorough": ["Harness_CHAIN_%s_12" % h for h in CHAIN_H] + ["Harness_CHAIN_%s_21" % h for h in CHAIN_H] + ["Harness_CHAIN_%s_g2" % h for h in CHAIN_H],
        "opts": {"timeout": 20000, "witness": 3},
        "owner": owner,
        "reach": {"Harness_CHAIN_%s_12" % h: ["accepted", "rejected"] for h in CHAIN_H},
    }
CHAIN_BOUNDS = {
    "quick": "handler level, one message from an arbitrary INV pre-state: focus deployment (tenant,1) absent/present with one group, 1 order slot x 2 provider slots (each: none / bid / bid+lease), all record states symbolic, all balances/prices/deposits unbounded integers in [0,2^100), heights in [1,2^40) with arbitrary gaps incl. 0; bystander deployment (tenant,12) with one order/bid/lease slot; a second universe (_g2) in which the focus deployment has TWO groups (one order slot, one provider each) for the 7 handlers that name a group or end leases (close deployment/group, pause, start, close bid, withdraw, close lease), with the clause that a message touches only the group it names unless the deployment's account closes; all 12 deployment+market handlers with symbolic message fields; real keepers and escrow hooks wired as app.setAkashKeepers",
    "thorough": "adds the 2-order-slots x 1-provider universe and the 2-groups universe for all 12 handlers",
}
CHAIN_ASSUME = ["INV (DESIGN §4, Appendix A) is assumed of the pre-state and asserted of the post-state: induction over histories of any length inside the identifier universe",
    "a failing or panicking handler leaves the state unchanged (SDK transaction semantics); ValidateBasic runs before the handler",
    "pre-state records are written through the keepers' own save/update functions and keys"]
for pid in ("C04", "C05", "C16"):
    PROPS[pid] = {"jobs": [chain_job(pid)], "bounds": CHAIN_BOUNDS, "stubs": CHAIN_STUBS + ["params subspace -> value kept in the context model", "telemetry -> no-op"],
        "outside_claim": ["more than two groups per deployment, more than 2 order/provider slots", "provider deletion (unimplemented in the repo)", "Begin/EndBlock (empty for the akash modules)"],
        "assumptions": CHAIN_ASSUME}
C16_CODEC = ["Harness_C16_codec_%s" % k for k in ("deployment", "group", "order", "bid_lease", "provider_audit")]
C08_AUD = ["Harness_C08_audit_update_0", "Harness_C08_audit_update_2", "Harness_C08_audit_delete_1", "Harness_C08_audit_delete_2"]
PROPS["C16"] = dict(PROPS["C16"])
PROPS["C16"]["jobs"] = [chain_job("C16"),
    {"pkg": "zzverif/c16", "pkgname": "zzc16", "files": ["harness/C16/codec.go"], "quick": C16_CODEC, "thorough": C16_CODEC,
     "opts": {"timeout": 20000, "witness": 4}, "reach": dict((h, ["parsed"]) for h in C16_CODEC)},
    {"pkg": "x/audit/keeper", "files": ["harness/C07/audit.go", "harness/C08/audit.go"], "shims": ["shim.go.tmpl", "shim_chain.go.tmpl"],
     "quick": C08_AUD, "thorough": C08_AUD, "opts": {"timeout": 20000, "witness": 4}, "reach": {"Harness_C08_audit_update_2": ["event-checked"], "Harness_C08_audit_delete_2": ["event-checked"]}}]
PROPS["C16"]["bounds"] = {k: v + "; event codecs: every typed event of the deployment, market, provider and audit modules with arbitrary uint64 dseq, uint32 gseq/oseq, price amount in [0,2^100), rendered by ToSDKEvent, stringified and parsed back by sdkutil.ParseEvent + the module's ParseEvent" for k, v in CHAIN_BOUNDS.items()}
PROPS["C05"]["jobs"] = [chain_job("C05"), esc_job("C05")]
PROPS["C01"]["jobs"] = PROPS["C01"]["jobs"] + [chain_job("C01")]
PROPS["C03"]["jobs"] = PROPS["C03"]["jobs"] + [chain_job("C03")]

ID_EQ_JOB = {"pkg": "x/market/types", "files": ["harness/C06/equals.go"], "quick": ["Harness_C06_id_equality"], "thorough": ["Harness_C06_id_equality"],
             "opts": {"timeout": 30000}, "reach": {"Harness_C06_id_equality": ["compared"]}}
def c06_keys(pkg, f, hs, ths=None):
    return {"pkg": pkg, "files": ["harness/C06/" + f], "quick": hs, "thorough": ths or hs, "opts": {"timeout": 30000}}
PROPS["C06"] = {
    "jobs": [
        {"pkg": "zzverif/c06", "pkgname": "zzc06", "files": ["harness/C06/signers.go"], "quick": ["Harness_C06_signers"], "opts": {"timeout": 20000}},
        c06_keys("x/market/keeper", "keys_market.go", ["Harness_C06_market_keys"]),
        c06_keys("x/deployment/keeper", "keys_deployment.go", ["Harness_C06_deployment_keys"]),
        c06_keys("x/escrow/keeper", "keys_escrow.go", ["Harness_C06_escrow_keys_%s" % s for s in ("11", "12", "21", "22", "13")],
                 ["Harness_C06_escrow_keys_%s" % s for s in ("11", "12", "21", "22", "13", "23", "33", "35", "55")]),
        c06_keys("x/audit/keeper", "keys_audit.go", ["Harness_C06_audit_keys"]),
        c06_keys("x/cert/keeper", "keys_cert.go", ["Harness_C06_cert_keys"]),
        c06_keys("x/market/types", "ids.go", ["Harness_C06_escrow_ids"]),
        ID_EQ_JOB,
        {"pkg": "x/cert/keeper", "files": ["harness/C17/certs.go", "harness/C17/query.go"], "shims": ["shim.go.tmpl", "shim_chain.go.tmpl", "shim_cert.go.tmpl"],
         "quick": ["Harness_C17_revoke_padded", "Harness_C17_revoke_2"], "thorough": ["Harness_C17_revoke_padded", "Harness_C17_revoke_2"], "opts": {"timeout": 20000, "maxbigbytes": 9},
         "reach": {"Harness_C17_revoke_padded": ["revoked"]}},
        chain_job("C06"), esc_job("C06"),
    ],
    "bounds": {"quick": "signers: all 19 message types with arbitrary 20-byte addresses and sequence numbers; key separation: arbitrary 20-byte owner/provider/auditor addresses, arbitrary uint64/uint32 sequence numbers (bit-vectors through the real encoding/binary code), escrow ids with decimal renderings of 1..3 digits (thorough 1..5), certificate serials < 2^24; frame and only-the-signer-pays clauses on the chain step (12 handlers) and escrow step",
               "thorough": "decimal renderings up to 5 digits; chain step also on the 2x1 universe"},
    "stubs": CHAIN_STUBS,
    "outside_claim": ["signature verification itself (SDK ante handler)", "addresses of length other than 20 bytes", "owner strings of different lengths (bech32 of 20 bytes has fixed length)"],
    "assumptions": CHAIN_ASSUME,
}

C07_AUD = ["Harness_C07_audit_update_0_2", "Harness_C07_audit_update_1_2", "Harness_C07_audit_update_2_1", "Harness_C07_audit_update_2_2", "Harness_C07_audit_delete_2_1", "Harness_C07_audit_delete_3_1", "Harness_C07_audit_delete_3_0"]
def c07_chain():
    j = chain_job("C07")
    j["quick"] = ["Harness_C07_%s" % h for h in CHAIN_H if h != "CloseDeployment"] + ["Harness_C07_proc_CreateDeployment", "Harness_C07_proc_CreateBid", "Harness_C07_CreateLease_13"]
    j["thorough"] = ["Harness_C07_%s" % h for h in CHAIN_H] + ["Harness_C07_proc_CreateDeployment", "Harness_C07_proc_CreateBid", "Harness_C07_CreateLease_13"]
    j["reach"] = {"Harness_C07_proc_CreateDeployment": ["executed-twice", "accepted"], "Harness_C07_proc_CreateBid": ["executed-twice", "accepted"]}
    return j
PROPS["C07"] = {
    "jobs": [
        {"pkg": "x/audit/keeper", "files": ["harness/C07/audit.go"], "shims": ["shim.go.tmpl", "shim_chain.go.tmpl"],
         "quick": C07_AUD, "thorough": C07_AUD + ["Harness_C07_audit_update_3_2"], "opts": {"timeout": 20000}, "native_replay": True},
        c07_chain(),
        {"pkg": "x/cert/keeper", "files": ["harness/C17/certs.go", "harness/C07/cert.go"], "shims": ["shim.go.tmpl", "shim_chain.go.tmpl", "shim_cert.go.tmpl"],
         "quick": ["Harness_C07_cert_create_1", "Harness_C07_cert_revoke_1"], "thorough": ["Harness_C07_cert_create_1", "Harness_C07_cert_revoke_1"],
         "opts": {"timeout": 20000, "maxbigbytes": 9}, "reach": {"Harness_C07_cert_create_1": ["executed-twice", "accepted"]}},
    ],
    "bounds": {"quick": "2-run self-composition: (B) audit keeper CreateOrUpdate/DeleteProviderAttributes with <=2 (delete: 3) stored and <=2 new attributes, symbolic 1-byte keys/values, every map iteration order of both runs; (A) 11 of the 12 deployment/market handlers (thorough: all 12) executed twice on forked contexts from the arbitrary INV pre-state of the chain step with map iteration order inside the code under test turned into choice points; (A') create-deployment and create-bid executed by a long-running node (keepers that already read their parameters) and by a freshly wired set of keepers over the same stores after the module parameters were changed directly in the parameter store; (C) certificate create / revoke executed twice at two different wall-clock instants (two-epoch clock; the certificate's validity window contains either, both or none) from a state of 1 stored certificate",
               "thorough": "adds 3 stored attributes and CloseDeployment"},
    "stubs": CHAIN_STUBS + ["sort.Slice/SliceStable -> the real stable_func/pdqsort_func SSA with an engine swapper", "Go map iteration order -> one choice point per range statement in code under test (all permutations)"],
    "outside_claim": ["non-determinism inside Tendermint/IAVL/protobuf encoding", "rand/goroutines (none is reachable from the handlers: any call would end the path as unsupported and be reported)", "provider and audit-message handlers beyond the audit keeper kernels"],
    "assumptions": CHAIN_ASSUME + ["native replay cannot force Go's map order; a counterexample is confirmed by re-running the real code until the two orders are observed"],
}

C08_M = ["Harness_C08_match_%s" % s for s in ("self_1", "self_2", "allof_1", "allof_2", "anyof_1", "anyof_2", "both", "none")]
def c08_chain():
    j = chain_job("C08")
    j["quick"] = ["Harness_C08_bid_self", "Harness_C08_bid_auditors", "Harness_C08_update_provider"]
    j["thorough"] = j["quick"]
    j["reach"] = {"Harness_C08_bid_self": ["bid-accepted", "bid-rejected"], "Harness_C08_bid_auditors": ["bid-accepted", "bid-rejected"], "Harness_C08_update_provider": ["update-accepted", "update-rejected"]}
    return j
PROPS["C08"] = {
    "jobs": [
        {"pkg": "x/deployment/types", "files": ["harness/C08/match.go"], "quick": C08_M, "thorough": C08_M + ["Harness_C08_match_both_2"], "opts": {"timeout": 20000}},
        c08_chain(),
        {"pkg": "x/audit/keeper", "files": ["harness/C07/audit.go", "harness/C08/audit.go"], "shims": ["shim.go.tmpl", "shim_chain.go.tmpl"],
         "quick": C08_AUD, "thorough": C08_AUD, "opts": {"timeout": 20000, "witness": 4}, "reach": {"Harness_C08_audit_delete_2": ["accepted", "rejected"]}},
    ],
    "bounds": {"quick": "attribute kernel MatchRequirements: <=2 required attributes, <=2 own, all-of/any-of lists of <=2 auditors out of 3, attestations by <=3 auditors with <=2 attributes, keys and values symbolic 1-byte strings; handler CreateBid: order absent/open/matched/closed (symbolic), provider registered or not, bidder = provider or = tenant, price and deposit symbolic amounts in 2 denominations, 1 required attribute, <=2 own attributes, all-of/any-of lists of <=1 of 2 auditors, attestations present or not; UpdateProvider: 2 leases of possibly other providers with symbolic state, <=2 new attributes",
               "thorough": "adds a 2-requirement x 3-attestation kernel instance"},
    "stubs": CHAIN_STUBS + ["regexp.MatchString -> native evaluation on concrete strings (attribute keys are concrete in handler-level harnesses)"],
    "outside_claim": ["OrderMaxBids (not in the statement)", "attribute key syntax"],
    "assumptions": ["the oracle is one-directional (accepted implies conditions): a stricter admission rule is not a violation"],
}

C10_Q = ["Harness_C10_1x1", "Harness_C10_1x2", "Harness_C10_2x1", "Harness_C10_2x2", "Harness_C10_endpoints", "Harness_C10_groups"]
PROPS["C10"] = {
    "jobs": [{"pkg": "validation", "files": ["harness/C10/crossval.go"], "quick": C10_Q,
              "thorough": C10_Q + ["Harness_C10_2x3", "Harness_C10_3x2", "Harness_C10_3x3"], "opts": {"timeout": 30000},
              "reach": {h: ["accepted", "rejected"] for h in ["Harness_C10_1x1", "Harness_C10_2x2"]}}],
    "bounds": {"quick": "validateManifestDeploymentGroup: <=2 on-chain resource records x <=2 manifest services (thorough 3x3), every cpu/memory/storage value a symbolic integer in [0,2^62), replica counts symbolic in [1,1000], <=2 endpoints per on-chain record and <=2 exposes per service with symbolic port/external port/protocol/global flag; group-name matching through ValidateManifestWithDeployment with <=2 groups per side over 3 names, every on-chain group in any of its 4 states",
               "thorough": "3x3 records/services"},
    "stubs": COMMON_STUBS,
    "outside_claim": ["the manifest version hash (json.Marshal + SortJSON + SHA-256 are reflection/crypto code outside the encodable fragment)", "attribute lists inside resource units (empty)", "more than 3 records per group"],
    "assumptions": ["on-chain and manifest replica counts are >= 1 (both are validated before this comparison)"],
}

C18_Q = ["Harness_C18_faithful_1x1", "Harness_C18_faithful_2x1", "Harness_C18_faithful_1x2", "Harness_C18_determinism_2x1", "Harness_C18_determinism_1x2"]
PROPS["C18"] = {
    "jobs": [{"pkg": "sdl", "files": ["harness/C18/sdl.go"], "quick": C18_Q,
              "thorough": C18_Q + ["Harness_C18_faithful_2x2", "Harness_C18_faithful_1x1e2"], "opts": {"timeout": 30000},
              "reach": {"Harness_C18_faithful_1x1": ["translated", "document-valid"]}},
             {"pkg": "sdl", "files": ["harness/C18/toplevel.go", "harness/C18/attrs.go"], "shims": ["shim.go.tmpl", "shim_loop.go.tmpl"],
              "quick": ["Harness_C18_toplevel_order", "Harness_C18_attr_order"], "thorough": ["Harness_C18_toplevel_order", "Harness_C18_attr_order"], "opts": {"timeout": 30000, "witness": 4},
              "reach": {"Harness_C18_toplevel_order": ["unmarshalled"], "Harness_C18_attr_order": ["unmarshalled"]}}],
    "bounds": {"quick": "top level: (*sdl).UnmarshalYAML on a mapping node with the entries version/services/profiles/deployment in all 24 orders (node.Decode stubbed in the engine); decoded SDL v2 value: <=2 services x <=2 placements (not both 2 in quick) x <=2 compute profiles, 1 expose per service (thorough 2) with symbolic port/as/proto/to/global, symbolic 1-byte image suffix/command/argument/env value, symbolic counts, cpu/memory/storage, one symbolic cpu and one storage attribute per profile, and prices inside the chain's limits; determinism: two runs with every Go map iteration order explored independently",
               "thorough": "2x2 services x placements (faithfulness), 2 exposes; the 2x2 determinism instance does not finish in 25 min (every map range is a permutation choice in both runs) and is not registered"},
    "stubs": COMMON_STUBS + ["sort.Slice/sort.Strings -> real sort code with an engine swapper", "regexp (service names, env names, hostnames) -> native evaluation on concrete strings"],
    "outside_claim": ["YAML parsing and unit-string parsing (yaml.Unmarshal, units.go): the claim starts at the decoded v2 value, so 'any reordering of YAML mapping keys' is covered as 'any Go map iteration order'", "the version hash (json.Marshal/SortJSON/SHA-256)"],
    "assumptions": ["service/placement/profile names are concrete"],
}

LOOP_STUBS = COMMON_STUBS + [
    "goroutines -> one goroutine (the loop under test) is executed; every `go f()` becomes a task that runs atomically at a scheduler-chosen later select or blocking receive (covers runner.Do / deploymentManager.do); all other parties are environment channels with harness generators",
    "select -> choice over ready cases and pending tasks, all explored; timers (time.After/NewTimer) are sources that may fire at any later select",
    "collaborators (session, query/tx client, cluster, pricing, bus, subscriber) -> harness stubs whose outcome (ok/error) is a scheduler choice; context cancellation is not observed by stubs",
    "prometheus metrics, loggers -> no-ops",
]
PROPS["C13"] = {
    "jobs": [{"pkg": "provider/bidengine", "files": ["harness/C13/order.go"], "shims": ["shim.go.tmpl", "shim_loop.go.tmpl"],
              "quick": ["Harness_C13_fresh_7", "Harness_C13_overbid_7", "Harness_C13_existing_8"],
              "thorough": ["Harness_C13_fresh_9", "Harness_C13_overbid_7", "Harness_C13_existing_10", "Harness_C13_fresh_10_e3", "Harness_C13_existing_11_e3"],
              "opts": {"timeout": 20000, "witness": 4}, "reach": {"Harness_C13_fresh_7": ["returned"]}},
             {"pkg": "provider/bidengine", "files": ["harness/C13/order.go", "harness/C13/service.go"], "shims": ["shim.go.tmpl", "shim_loop.go.tmpl"],
              "quick": ["Harness_C13_service_3"], "thorough": ["Harness_C13_service_4"],
              "opts": {"timeout": 20000, "witness": 4}, "reach": {"Harness_C13_service_3": ["observed"], "Harness_C13_service_4": ["observed"]}}],
    "bounds": {"quick": "(*service).run: 0/1 catch-up order (with or without a bid from an earlier session), <=3 (thorough 4) events out of {order-created X, order-created Y, unrelated}, no monitor finishing inside the window; (*order).run with both values of checkForExistingBid; <=7 (existing-bid: 8) selects before shutdown is forced, then the post-loop clean-up and drain; <=2 chain events drawn from 6 kinds (lease won / lost / other group, order closed this / other, unrelated); every asynchronous step (group query, existing-bid query, reservation, pricing, bid broadcast, close-bid broadcast) completes ok or fails at any scheduler-chosen point, including after the loop has exited; bid timeout; shutdown at any point; strategy price below and above the order's maximum (group of two resource records, unit price x count 10x1 + 30x3)",
               "thorough": "9 / 10 selects; and 10 / 11 selects with <=3 chain events"},
    "stubs": LOOP_STUBS,
    "outside_claim": ["true multi-goroutine interleavings inside one component and data races", "shouldBid's auditor-signature path (no signature requirements in the harness order)", "service level: re-announcement of an order after its monitor has finished; service shutdown/drain; in the engine newOrder is a model of the monitor's first visible effects (natively the real monitors run)"],
    "assumptions": ["an asynchronous step's effects happen atomically at its completion point"],
}

PROPS["C14"] = {
    "jobs": [{"pkg": "provider/cluster", "files": ["harness/C14/manager.go"], "shims": ["shim.go.tmpl", "shim_loop.go.tmpl"],
              "quick": ["Harness_C14_5"], "thorough": ["Harness_C14_6", "Harness_C14_8"],
              "opts": {"timeout": 20000, "witness": 6}, "reach": {"Harness_C14_5": ["returned", "idle"]}},
             {"pkg": "provider/cluster", "files": ["harness/C14/manager.go", "harness/C14/service.go", "harness/C14/hostname.go"], "shims": ["shim.go.tmpl", "shim_loop.go.tmpl"],
              "quick": ["Harness_C14_service_4", "Harness_C14_hostnames", "Harness_C14_hostnames_release"], "thorough": ["Harness_C14_service_5", "Harness_C14_hostnames", "Harness_C14_hostnames_release"],
              "opts": {"timeout": 20000, "witness": 4}, "reach": {"Harness_C14_service_4": ["observed", "released"], "Harness_C14_service_5": ["observed", "released"], "Harness_C14_hostnames": ["reserved", "nothing-reserved", "released"], "Harness_C14_hostnames_release": ["released-and-retaken"]}}],
    "bounds": {"quick": "(*deploymentManager).run with startDeploy/startTeardown/do/doDeploy/doTeardown: <=6 selects before shutdown is forced, then the post-loop drain; hostname reservation ok/failed, <=2 manifest updates, one lease-closed (teardown) request, deploy and teardown completing ok or failing at any scheduler-chosen point, provider shutdown at any point; the update/teardown request channels have the capacity the real newDeploymentManager gives them (a send on a buffered one is an event of its own); cluster (*service).run: <=4 selects (thorough 5) over manifest-received / lease-closed / unrelated events and manager completions, with models of the manager's visible effects: reservation released once the lease is closed and no manager is left, the service tracks exactly the unfinished managers; hostname service reserve/release from an arbitrary table",
               "thorough": "8 and 10 selects"},
    "stubs": LOOP_STUBS + ["newDeploymentMonitor/newDeploymentWithdrawal -> already-finished stubs in the engine (natively the real ones run against the stub client)", "retry.Do -> up to 3 immediate attempts"],
    "outside_claim": ["the inventory and hostname service internals (the cluster service loop is encoded with models of the manager's visible effects; natively the real managers run)", "true multi-goroutine interleavings and data races", "runs pre-empted by provider shutdown keep the safety obligations but not 'teardown is invoked' (shutdown deliberately leaves workloads running)"],
    "assumptions": ["a cluster operation starts when its goroutine is spawned and its effects happen atomically at its completion point"],
}

PROPS["C20"] = {
    "jobs": [{"pkg": "provider/manifest", "files": ["harness/C20/manager.go"], "shims": ["shim.go.tmpl", "shim_loop.go.tmpl"],
              "quick": ["Harness_C20_5"], "thorough": ["Harness_C20_6", "Harness_C20_7"],
              "opts": {"timeout": 20000, "witness": 6}, "reach": {"Harness_C20_5": ["returned", "idle"]}},
             {"pkg": "provider/manifest", "files": ["harness/C20/submit.go"], "shims": ["shim.go.tmpl", "shim_loop.go.tmpl"],
              "quick": ["Harness_C20_submit", "Harness_C20_handle_stopping"], "thorough": ["Harness_C20_submit", "Harness_C20_handle_stopping"],
              "opts": {"timeout": 20000, "witness": 2}, "reach": {"Harness_C20_submit": ["accepted-then-abandoned"], "Harness_C20_handle_stopping": ["handled"]}}],
    "bounds": {"quick": "(*service).Submit with a submitter that gives up before or after its request is accepted: the reply channel handed to the manager accepts the manager's single reply without a receiver; manifest (*manager).run: <=5 environment selects before shutdown is forced; <=2 lease notifications, 1 lease removal, <=2 manifest submissions of 3 kinds (valid, other version, structurally invalid) each with its own capacity-1 reply channel, 1 version update, chain-data fetch ok/failed at any scheduler-chosen point, shutdown at any point; the four request channels have the capacity the real newManager gives them (a send on a buffered one is an event of its own); validateRequest runs the real validators on concrete manifests",
               "thorough": "6 and 7 selects"},
    "stubs": LOOP_STUBS + ["sdl.ManifestVersion -> injective tag of the manifest content in the engine (the JSON/SHA-256 hash is outside the encodable fragment); natively the real hash", "hostname service -> always available"],
    "outside_claim": ["the watchdog and the service-level routing of submissions to managers", "the stop timer's linger period (the timer may fire at any select)", "true multi-goroutine interleavings"],
    "assumptions": ["a second send on a full capacity-1 reply channel blocks the manager forever (counted as a hang)"],
}

C11_Q = ["Harness_C11_deploy", "Harness_C11_namespace", "Harness_C11_container", "Harness_C11_netpol", "Harness_C11_netpol_2", "Harness_C11_netpol_applied", "Harness_C11_netpol_off", "Harness_C11_objects"]
PROPS["C11"] = {
    "jobs": [{"pkg": "provider/cluster/kube", "files": ["harness/C11/builders.go", "harness/C11/clientset.go", "harness/C11/deploy.go"], "quick": C11_Q, "thorough": C11_Q,
              "opts": {"timeout": 30000, "witness": 4},
              "reach": {"Harness_C11_namespace": ["namespace"], "Harness_C11_container": ["container"], "Harness_C11_netpol": ["netpol"], "Harness_C11_netpol_applied": ["applied-twice", "netpol"], "Harness_C11_deploy": ["deployed"]}},
             {"pkg": "provider/cluster/kube", "files": ["harness/C11/builders.go", "harness/C11/clientset.go"], "quick": ["Harness_C11_commit"], "thorough": ["Harness_C11_commit"],
              "opts": {"timeout": 60000, "witness": 2, "inctimeout": 0}, "reach": {"Harness_C11_commit": ["commit"]}}],
    "bounds": {"quick": "lidNS on an arbitrary 28-byte digest (arbitrary owner address; SHA-224 uninterpreted); deploymentBuilder.create/update/container with symbolic cpu/memory/storage in [1,2^44] (bit-vectors) at commit levels 0/0.5/1, 3 runtime classes; the float64 commit-level kernel ComputeCommittedResources for every value in [1,2^44] at the factors {0,0.5,1,1.5,2,3,10,1024} (a fully symbolic factor times out on all three solvers); netPolBuilder.create with one and with two services, one symbolic expose each, the attacked pod belonging to either service, evaluated by a policy evaluator in the harness for an arbitrary peer (same namespace / ingress namespace / ingress pod flags), destination port and protocol, and an arbitrary IPv4 egress address (bit-vector) and port; nsBuilder and serviceBuilder objects; the whole (*client).Deploy (first deploy and redeploy, network policies on/off; at every write of a workload object the namespace's policies must already exist) and TeardownLease for one service with an ingress, a node-port and an internal expose against typed fakes of both clientsets",
               "thorough": "same harnesses with a 240 s solver budget"},
    "stubs": COMMON_STUBS + ["sha256.Sum224 -> native on concrete input, fresh symbolic digest on symbolic input", "strings.ToLower -> per-byte ite", "math.Round -> fp.roundToIntegral RNA", "resource.Quantity -> opaque integer amount with scale (NewQuantity/NewScaledQuantity/DeepCopy/Value/MilliValue)"],
    "outside_claim": ["distinct leases => distinct namespaces rests on SHA-224 collision resistance (assumed)", "label selectors of cleanupStaleResources (the fakes ignore them)", "the content of ingress objects", "what the API server / CNI enforce", "commit factors other than the 8 listed; values above 2^44"],
    "assumptions": ["NetworkPolicy semantics as documented by Kubernetes: a pod selected by any policy of a type is isolated for that type and admits the union of all rules", "the lease namespace is not the ingress controller's namespace"],
}

C09_S = ["Harness_C09_scope_%d" % i for i in range(8)]
PROPS["C09"] = {
    "jobs": [{"pkg": "provider/gateway/utils", "files": ["harness/C09/auth.go"], "shims": ["shim.go.tmpl", "shim_cert.go.tmpl"],
              "quick": ["Harness_C09_verify"], "thorough": ["Harness_C09_verify"], "opts": {"timeout": 20000, "witness": 8},
              "reach": {"Harness_C09_verify": ["accepted", "genuine-accepted", "rejected", "no-certificate"]}},
             {"pkg": "provider/gateway/utils", "files": ["harness/C09/auth.go", "harness/C09/sessions.go"], "shims": ["shim.go.tmpl", "shim_cert.go.tmpl"],
              "quick": ["Harness_C09_sessions"], "thorough": ["Harness_C09_sessions"], "opts": {"timeout": 20000, "witness": 4},
              "reach": {"Harness_C09_sessions": ["second-accepted", "second-rejected"]}},
             {"pkg": "provider/gateway/rest", "files": ["harness/C09/scope.go"], "shims": ["shim.go.tmpl", "shim_loop.go.tmpl"],
              "quick": C09_S, "thorough": C09_S, "opts": {"timeout": 20000, "witness": 3, "transparent": ["github.com/gorilla/context"]},
              "reach": dict((h, ["backend-called"]) for h in C09_S[:6])},
             {"pkg": "provider/gateway/rest", "files": ["harness/C09/scope.go", "harness/C09/shell.go"], "shims": ["shim.go.tmpl", "shim_loop.go.tmpl"],
              "quick": ["Harness_C09_shell_overlap"], "thorough": ["Harness_C09_shell_overlap"], "opts": {"timeout": 20000, "witness": 2, "transparent": ["github.com/gorilla/context"]},
              "reach": {"Harness_C09_shell_overlap": ["both-served"]}}],
    "bounds": {"quick": "VerifyPeerCertificate of the real NewServerTLSConfig: on-chain certificate of account X present/absent, valid/revoked, symbolic serial; presented certificate with CN in {X, another account, not an address}, issuer equal or different, same or different (symbolic) serial, the on-chain key or another key, self-signed or signed by the other key, inside/outside its validity window when the gateway starts and (independently) when the client connects, with/without client-auth usage, chain length 0/1/2; request scoping: every scoped route of the real newRouter (6 today, room for 8), with/without verified peer certificate, each sequence variable a symbolic uint64 / non-numeric / out of range, 3 query strings (empty, stream parameters, another owner+provider+sequence numbers), deployment active or not; lease shell: two tenants' requests overlapping (the second served completely inside the first one's IsActive call), symbolic sequence numbers, through the websocket upgrade to cluster Exec; sessions: two consecutive connections of the holder of the valid on-chain certificate against the tls.Config returned by NewServerTLSConfig, the certificate revoked or not in between, the second connection offering the first one's session ticket or not",
               "thorough": "same"},
    "stubs": COMMON_STUBS + ["x509.ParseCertificate / pem.Decode / CertPool.AddCert / Certificate.Verify -> certificate tokens with the contract: Verify succeeds iff the certificate is one of the roots (identical certificate) or a CA root's key signed it (account certificates are not CAs), it is inside its validity window at VerifyOptions.CurrentTime (or now when zero) and carries the requested usage (natively: real certificates, real ECDSA, real crypto/x509)", "time.Now -> two-epoch harness clock (gateway start / handshake)", "cert QueryClient -> harness stub answering from one modelled on-chain certificate",
              "gorilla/mux NewRouter/Use/PathPrefix/Subrouter/HandleFunc/Methods/Vars -> recording model in the harness (natively the real mux serves real requests)", "http.Error, writeJSON, json.NewDecoder/Decode, websocket Upgrader.Upgrade, wsEventWriter/wsLogWriter -> harness stubs (stream writers reduced to their cluster query)", "provider/cluster/manifest clients -> recording fakes"],
    "outside_claim": ["X.509/ECDSA/TLS mathematics, PEM/DER parsing", "gorilla mux path matching and method routing", "concurrent requests other than the one modelled interleaving (a second tenant's shell request served completely while the first is inside its IsActive call)", "routes not under /lease/ or /deployment/", "the cert module's querier itself (C17)"],
    "assumptions": ["crypto/tls follows its documented Config contract: a full handshake calls VerifyPeerCertificate then VerifyConnection; unless SessionTicketsDisabled is set a ticket is issued and a connection offering it is resumed with the ticket's peer certificates, calling only VerifyConnection (InsecureSkipVerify is set by the code, so nothing else decides admission)"],
}

C15_Q = ["Harness_C15_root_0", "Harness_C15_root_2", "Harness_C15_sub_0_2", "Harness_C15_sub_1_0", "Harness_C15_sub_1_1", "Harness_C15_sub_2_0", "Harness_C15_sub_2_2", "Harness_C15_root_2d", "Harness_C15_sub_1_2d", "Harness_C15_sequence_0_4", "Harness_C15_sequence_1_5", "Harness_C15_publish_closing"]
PROPS["C15"] = {
    "jobs": [{"pkg": "pubsub", "files": ["harness/C15/bus.go"], "shims": ["shim.go.tmpl", "shim_loop.go.tmpl"],
              "quick": C15_Q, "thorough": C15_Q + ["Harness_C15_sub_3_1", "Harness_C15_root_3d", "Harness_C15_sequence_2_6"], "opts": {"timeout": 20000, "witness": 4},
              "reach": {"Harness_C15_sub_2_2": ["stepped"], "Harness_C15_publish_closing": ["returned"]}},
             {"pkg": "events", "files": ["harness/C15/feeder.go"], "shims": ["shim.go.tmpl", "shim_loop.go.tmpl"],
              "quick": ["Harness_C15_feeder"], "thorough": ["Harness_C15_feeder"], "opts": {"timeout": 20000, "witness": 2},
              "reach": {"Harness_C15_feeder": ["fed"]}}],
    "bounds": {"quick": "single-step lemmas on the real (*bus).run body and newSubscriber: bus in root or subscriber mode with 0/1/2 buffered events and 0/1/2 children; one of publish / emit / subscribe(clone) / unsubscribe, then shutdown with its post-loop collection of children; variants in which one of 2 children has already begun shutting down (it no longer reads; every map iteration order); bounded sequences on one subscriber loop (<=3 publications and any number of consumer reads within 4-5 loop steps, thorough 6): delivered ++ buffer = initial buffer ++ published, in order; publisher side: (*bus).Publish on a subscriber that no longer reads, shutdown beginning before the call or while the publisher waits; feeder: the real events.publishEvents loop fed 3 transaction results back to back (the second failed or not), any goroutine it starts completing in any order",
               "thorough": "adds 3 buffered events x 1 child, and 3 children one of them closing"},
    "stubs": LOOP_STUBS + ["child buses -> environment sinks/sources (their own loops are not run in the engine; natively live reader goroutines stand in for them)"],
    "outside_claim": ["the end-to-end statement over all interleavings of concurrent goroutines: it follows from the step lemmas only through a hand-written compositional argument (per-subscriber FIFO invariant) that is not solver-checked", "data races"],
    "assumptions": ["bus state is touched only by its own loop goroutine"],
    "level": "other",
    "explanation": "Solver-decided single-step lemmas on the real (*bus).run body and newSubscriber (publish hands the event to every child once and appends it once; emit sends and drops exactly the oldest buffered event; a clone starts with a private copy of the undelivered buffer; unsubscribe removes the child; shutdown signals and collects every child and notifies the parent once; no step blocks). The property's end-to-end statement over all interleavings of concurrent goroutines follows from these lemmas only through a hand-written compositional argument (per-subscriber FIFO invariant: delivered ++ buffer = published since subscription) which is NOT checked by the solver; multi-goroutine interleavings are outside bounded single-goroutine symbolic execution.",
}

PROPS["C10"]["jobs"] = PROPS["C10"]["jobs"] + PROPS["C20"]["jobs"][:1] + PROPS["C18"]["jobs"][1:2]
PROPS["C10"]["bounds"] = {k: v + "; version rule of validateRequest: in the C20 manager harness a manifest is accepted only with the expected version (last update, else chain version) - version hashes are injective tags" for k, v in PROPS["C10"]["bounds"].items()}

PROPS["C02"]["jobs"] = PROPS["C02"]["jobs"] + [esc_job("C02")]
PROPS["C02"]["bounds"] = {k: v + "; plus the escrow keeper step (see C03): per step a payee is credited at most rate x elapsed blocks, only through its own account, transferred = credited" for k, v in PROPS["C02"]["bounds"].items()}
PROPS["C02"]["stubs"] = CHAIN_STUBS

# identity of order / group ids is a premise of the inventory (C12) and the bid engine (C13)
PROPS["C12"]["jobs"] = PROPS["C12"]["jobs"] + [ID_EQ_JOB]
PROPS["C13"]["jobs"] = PROPS["C13"]["jobs"] + [ID_EQ_JOB]
