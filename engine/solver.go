package main

import (
	"math"
	"strconv"
	"bufio"
	"fmt"
	"io"
	"math/big"
	"os"
	"os/exec"
	"strings"
	"time"
)

var slowDump = os.Getenv("SYMGO_SLOW_DUMP")

type SatResult int

const (
	Sat SatResult = iota
	Unsat
	Unknown
)

func (r SatResult) String() string { return [...]string{"sat", "unsat", "unknown"}[r] }

type Solver struct {
	bin       string
	cmd       *exec.Cmd
	in        io.WriteCloser
	out       *bufio.Reader
	epoch     int
	nextDef   int
	visit     map[*Term]bool
	log       []string // outer-level commands of this epoch (for one-shot fallback)
	timeoutMs int
	// stats
	nQueries  int
	nFallback int
	nUnknown  int
	solveTime time.Duration
	varSeq    int
	incTimeoutMs int
	portfolio bool
	crossCheck bool
	nDisagree int
	nKilled   int
	restarted bool
	nCross    int
	vars      []*Term // declared vars this epoch, in order
	dead      bool
}

func NewSolver(bin string, timeoutMs, incMs int, portfolio, cross bool) *Solver {
	s := &Solver{bin: bin, timeoutMs: timeoutMs, incTimeoutMs: incMs, portfolio: portfolio, crossCheck: cross}
	s.start()
	return s
}

func (s *Solver) start() {
	s.cmd = exec.Command(s.bin, "-in")
	var err error
	s.in, err = s.cmd.StdinPipe()
	if err != nil {
		fatal("solver stdin: %v", err)
	}
	o, err := s.cmd.StdoutPipe()
	if err != nil {
		fatal("solver stdout: %v", err)
	}
	s.cmd.Stderr = os.Stderr
	if err := s.cmd.Start(); err != nil {
		fatal("cannot start solver %s: %v", s.bin, err)
	}
	s.out = bufio.NewReaderSize(o, 1<<20)
	s.raw(fmt.Sprintf("(set-option :timeout %d)", s.incTimeoutMs))
	s.raw("(set-option :print-success false)")
	s.dead = false
}

func (s *Solver) Close() {
	if s.cmd != nil {
		s.in.Close()
		s.cmd.Process.Kill()
		s.cmd.Wait()
	}
}

func (s *Solver) raw(line string) {
	if debugSMT {
		fmt.Fprintln(os.Stderr, "SMT>", line)
	}
	io.WriteString(s.in, line)
	io.WriteString(s.in, "\n")
}

func (s *Solver) outer(line string) {
	s.log = append(s.log, line)
	s.raw(line)
}

// BeginPath starts a fresh assertion scope for one explored path.
func (s *Solver) BeginPath() {
	if s.dead {
		s.Close()
		s.start()
	}
	s.epoch++
	s.nextDef = 0
	s.visit = map[*Term]bool{}
	s.log = s.log[:0]
	s.vars = s.vars[:0]
	s.raw("(push 1)")
}

func (s *Solver) EndPath() {
	s.raw("(pop 1)")
}

func (s *Solver) FreshVar(hint string, k SortKind, w int) *Term {
	s.varSeq++
	name := fmt.Sprintf("%s!%d", sanitize(hint), len(s.vars))
	t := mkVar(name, k, w)
	s.declare(t)
	return t
}

func sanitize(h string) string {
	var sb strings.Builder
	for _, r := range h {
		if r >= 'a' && r <= 'z' || r >= 'A' && r <= 'Z' || r >= '0' && r <= '9' || r == '_' || r == '.' {
			sb.WriteRune(r)
		} else {
			sb.WriteRune('_')
		}
	}
	if sb.Len() == 0 {
		return "v"
	}
	return sb.String()
}

func (s *Solver) declare(t *Term) {
	s.vars = append(s.vars, t)
	t.owner = s
	t.defEp = s.epoch
	s.outer(fmt.Sprintf("(declare-const %s %s)", t.name, t.sortString()))
}

// prepare defines large shared subterms at the outer level so that later
// assertions print in linear size.
func (s *Solver) prepare(t *Term) {
	if t.cst || t.name != "" {
		return
	}
	if s.visit[t] {
		return
	}
	s.visit[t] = true
	for _, a := range t.args {
		s.prepare(a)
	}
	if t.size > 10 {
		var sb strings.Builder
		t.write(&sb, s)
		s.nextDef++
		id := s.nextDef
		s.outer(fmt.Sprintf("(define-fun d%d () %s %s)", id, t.sortString(), sb.String()))
		t.defID = id
		t.defEp = s.epoch
		t.owner = s
	}
}

func (s *Solver) termString(t *Term) string {
	s.prepare(t)
	var sb strings.Builder
	t.write(&sb, s)
	return sb.String()
}

// Assert adds a path-condition conjunct at the outer level.
func (s *Solver) Assert(t *Term) {
	if t.cst && t.bval {
		return
	}
	s.outer("(assert " + s.termString(t) + ")")
}

func (s *Solver) readLine() string {
	line, err := s.out.ReadString('\n')
	if err != nil {
		s.dead = true
		return "(error \"solver died: " + err.Error() + "\")"
	}
	return strings.TrimSpace(line)
}

// readVerdict waits for the answer to a check-sat, but not forever: z3's soft timeout is not
// honoured inside some preprocessing steps (bit-blasting of large terms).  After a grace period the
// process is killed and restarted with the current assertion stack; the query counts as unknown.
func (s *Solver) readVerdict() string {
	type ans struct{ line string }
	ch := make(chan ans, 1)
	out := s.out
	go func() {
		for {
			line, err := out.ReadString('\n')
			if err != nil {
				ch <- ans{"(error \"solver died\")"}
				return
			}
			if t := strings.TrimSpace(line); t != "" {
				ch <- ans{t}
				return
			}
		}
	}()
	grace := time.Duration(s.incTimeoutMs)*time.Millisecond*4 + 2*time.Second
	select {
	case a := <-ch:
		if strings.HasPrefix(a.line, "(error \"solver died") {
			s.restart()
		}
		return a.line
	case <-time.After(grace):
		s.nKilled++
		s.restart()
		return "unknown"
	}
}

// restart kills the solver process and rebuilds the assertion stack of the current path.
func (s *Solver) restart() {
	s.Close()
	s.start()
	s.raw("(push 1)")
	for _, l := range s.log {
		s.raw(l)
	}
	s.restarted = true
}

// Check decides satisfiability of (path condition ∧ extra).
func (s *Solver) Check(extra *Term) SatResult {
	if extra != nil && extra.cst {
		if !extra.bval {
			return Unsat
		}
		extra = nil
	}
	t0 := time.Now()
	defer func() {
		d := time.Since(t0)
		s.solveTime += d
		if slowDump != "" && d > 3*time.Second {
			s.dumpFail(extra, fmt.Sprintf("slow %.1fs", d.Seconds()))
		}
	}()
	s.nQueries++
	if s.incTimeoutMs <= 0 {
		// incremental solving disabled (floating-point heavy harnesses): one-shot portfolio only
		if extra != nil {
			s.termString(extra)
		}
		s.nFallback++
		r := s.oneShot(extra, false)
		if r == Unknown {
			s.nUnknown++
		}
		return r
	}
	if extra != nil {
		str := s.termString(extra)
		s.raw("(push 1)")
		s.raw("(assert " + str + ")")
	}
	s.restarted = false
	s.raw("(check-sat)")
	res := s.readVerdict()
	if extra != nil && !s.restarted {
		s.raw("(pop 1)")
	}
	switch res {
	case "sat":
		return Sat
	case "unsat":
		return Unsat
	}
	if strings.HasPrefix(res, "(error") {
		fmt.Fprintln(os.Stderr, "solver error:", res)
		s.dumpFail(extra, res)
	}
	// unknown / timeout / error: one-shot fallback
	s.nFallback++
	r := s.oneShot(extra, false)
	if r == Unknown {
		s.nUnknown++
	}
	return r
}

func (s *Solver) dumpFail(extra *Term, res string) {
	f, err := os.CreateTemp("", "symgo-fail-*.smt2")
	if err != nil {
		return
	}
	defer f.Close()
	for _, l := range s.log {
		fmt.Fprintln(f, l)
	}
	if extra != nil {
		fmt.Fprintln(f, "(assert "+s.termStringNoDef(extra)+")")
	}
	fmt.Fprintln(f, "(check-sat)")
	fmt.Fprintln(os.Stderr, "solver failure script:", f.Name(), res)
}

func (s *Solver) termStringNoDef(t *Term) string {
	var sb strings.Builder
	t.write(&sb, s)
	return sb.String()
}

func (s *Solver) script(extra *Term, model bool) string {
	var sb strings.Builder
	for _, l := range s.log {
		sb.WriteString(l)
		sb.WriteString("\n")
	}
	if extra != nil {
		// extra's big subterms were defined at outer level by termString in Check
		sb.WriteString("(assert " + s.termStringNoDef(extra) + ")\n")
	}
	sb.WriteString("(check-sat)\n")
	if model && len(s.vars) > 0 {
		sb.WriteString("(get-value (")
		for _, v := range s.vars {
			sb.WriteString(v.name + " ")
		}
		sb.WriteString("))\n")
	}
	return sb.String()
}

func (s *Solver) oneShot(extra *Term, model bool) SatResult {
	r, _ := s.oneShotModel(extra, model)
	return r
}

func (s *Solver) oneShotModel(extra *Term, model bool) (SatResult, map[string]string) {
	f, err := os.CreateTemp("", "symgo-q-*.smt2")
	if err != nil {
		return Unknown, nil
	}
	name := f.Name()
	defer os.Remove(name)
	f.WriteString("(set-logic ALL)\n")
	f.WriteString(s.script(extra, model))
	f.Close()
	to := s.timeoutMs
	type answer struct {
		r   SatResult
		m   map[string]string
		who string
	}
	cmds := [][]string{
		{s.bin, fmt.Sprintf("-T:%d", to/1000+1), name},
	}
	if s.portfolio {
		cmds = append(cmds,
			[]string{"z3", fmt.Sprintf("-T:%d", to/1000+1), name},
			[]string{"cvc5", "--produce-models", fmt.Sprintf("--tlimit=%d", to), name})
	}
	ch := make(chan answer, len(cmds))
	procs := make([]*exec.Cmd, len(cmds))
	for i, c := range cmds {
		cmd := exec.Command(c[0], c[1:]...)
		procs[i] = cmd
		go func(cmd *exec.Cmd, who string) {
			out, _ := cmd.Output()
			txt := strings.TrimSpace(string(out))
			lines := strings.SplitN(txt, "\n", 2)
			a := answer{r: Unknown, who: who}
			switch strings.TrimSpace(lines[0]) {
			case "sat":
				a.r = Sat
				if model && len(lines) > 1 {
					a.m = parseValues(lines[1])
				}
			case "unsat":
				// an error BEFORE the verdict could mean a dropped assertion; the only error allowed
				// after it is the get-value complaint that an unsat problem has no model
				rest := ""
				if len(lines) > 1 {
					rest = lines[1]
				}
				bad := false
				for _, l := range strings.Split(rest, "\n") {
					if strings.Contains(l, "(error") && !strings.Contains(l, "model is not available") && !strings.Contains(l, "cannot get value") && !strings.Contains(l, "Cannot get") {
						bad = true
					}
				}
				if !bad {
					a.r = Unsat
				}
			}
			ch <- a
		}(cmd, c[0])
	}
	var got []answer
	res := answer{r: Unknown}
	for range cmds {
		a := <-ch
		got = append(got, a)
		if a.r != Unknown {
			if res.r == Unknown {
				res = a
				if !s.crossCheck {
					break
				}
			} else if res.r != a.r {
				fmt.Fprintf(os.Stderr, "SOLVER DISAGREEMENT: %s says %v, %s says %v\n", res.who, res.r, a.who, a.r)
				s.nDisagree++
				s.dumpFail(extra, "disagreement")
				res.r = Unknown
				break
			}
		}
	}
	for _, c := range procs {
		if c.Process != nil {
			c.Process.Kill()
		}
	}
	if res.r == Unknown && slowDump != "" {
		if b, err := os.ReadFile(name); err == nil {
			os.WriteFile(name+".unknown", b, 0644)
			fmt.Fprintln(os.Stderr, "unknown one-shot query kept:", name+".unknown")
		}
	}
	if s.crossCheck && res.r != Unknown {
		s.nCross += len(got) - 1
	}
	return res.r, res.m
}

func firstLine(s string) string {
	if i := strings.Index(s, "\n"); i >= 0 {
		return s[:i]
	}
	return s
}

// Model returns values of all declared variables under (pc ∧ extra); must be sat.
func (s *Solver) Model(extra *Term) (SatResult, map[string]string) {
	t0 := time.Now()
	defer func() { s.solveTime += time.Since(t0) }()
	s.nQueries++
	if extra != nil && extra.cst {
		if !extra.bval {
			return Unsat, nil
		}
		extra = nil
	}
	if s.incTimeoutMs <= 0 {
		if extra != nil {
			s.termString(extra)
		}
		s.nFallback++
		r, m := s.oneShotModel(extra, true)
		if r == Unknown {
			s.nUnknown++
		}
		return r, m
	}
	if extra != nil {
		str := s.termString(extra)
		s.raw("(push 1)")
		s.raw("(assert " + str + ")")
	}
	s.restarted = false
	s.raw("(check-sat)")
	res := s.readVerdict()
	var m map[string]string
	var r SatResult
	switch res {
	case "sat":
		r = Sat
		if len(s.vars) > 0 {
			var sb strings.Builder
			sb.WriteString("(get-value (")
			for _, v := range s.vars {
				sb.WriteString(v.name + " ")
			}
			sb.WriteString("))")
			s.raw(sb.String())
			m = parseValues(s.readSexp())
		} else {
			m = map[string]string{}
		}
	case "unsat":
		r = Unsat
	default:
		r = Unknown
	}
	if extra != nil && !s.restarted {
		s.raw("(pop 1)")
	}
	if r == Unknown {
		s.nFallback++
		r, m = s.oneShotModel(extra, true)
		if r == Unknown {
			s.nUnknown++
		}
	}
	return r, m
}

func (s *Solver) readSexp() string {
	var sb strings.Builder
	depth := 0
	started := false
	for {
		line, err := s.out.ReadString('\n')
		if err != nil {
			s.dead = true
			return sb.String()
		}
		sb.WriteString(line)
		for _, c := range line {
			if c == '(' {
				depth++
				started = true
			} else if c == ')' {
				depth--
			}
		}
		if started && depth <= 0 {
			return sb.String()
		}
	}
}

// ---------- tiny s-expression reader for get-value output ----------

type sexp struct {
	atom string
	list []*sexp
}

func parseSexp(s string, pos *int) *sexp {
	for *pos < len(s) && (s[*pos] == ' ' || s[*pos] == '\n' || s[*pos] == '\t' || s[*pos] == '\r') {
		*pos++
	}
	if *pos >= len(s) {
		return nil
	}
	if s[*pos] == '(' {
		*pos++
		e := &sexp{list: []*sexp{}}
		for {
			for *pos < len(s) && (s[*pos] == ' ' || s[*pos] == '\n' || s[*pos] == '\t' || s[*pos] == '\r') {
				*pos++
			}
			if *pos >= len(s) {
				return e
			}
			if s[*pos] == ')' {
				*pos++
				return e
			}
			c := parseSexp(s, pos)
			if c == nil {
				return e
			}
			e.list = append(e.list, c)
		}
	}
	st := *pos
	if s[*pos] == '|' {
		*pos++
		for *pos < len(s) && s[*pos] != '|' {
			*pos++
		}
		*pos++
		return &sexp{atom: s[st:*pos]}
	}
	for *pos < len(s) && !strings.ContainsRune(" \n\t\r()", rune(s[*pos])) {
		*pos++
	}
	return &sexp{atom: s[st:*pos]}
}

func (e *sexp) String() string {
	if e.list == nil {
		return e.atom
	}
	parts := make([]string, len(e.list))
	for i, c := range e.list {
		parts[i] = c.String()
	}
	return "(" + strings.Join(parts, " ") + ")"
}

// parseValues turns "((x 1) (y (- 2)) (b #x0f))" into name → canonical value string:
// decimal for Int and BV (unsigned), "true"/"false" for Bool, raw s-expr for FP.
func parseValues(txt string) map[string]string {
	pos := 0
	e := parseSexp(txt, &pos)
	m := map[string]string{}
	if e == nil {
		return m
	}
	for _, p := range e.list {
		if len(p.list) != 2 {
			continue
		}
		m[p.list[0].String()] = canonValue(p.list[1])
	}
	return m
}

func canonValue(e *sexp) string {
	if e.list == nil {
		a := e.atom
		if strings.HasPrefix(a, "#x") {
			v, _ := new(big.Int).SetString(a[2:], 16)
			return v.String()
		}
		if strings.HasPrefix(a, "#b") {
			v, _ := new(big.Int).SetString(a[2:], 2)
			return v.String()
		}
		return a
	}
	if len(e.list) == 2 && e.list[0].atom == "-" {
		return "-" + canonValue(e.list[1])
	}
	if len(e.list) == 3 && e.list[0].atom == "_" && strings.HasPrefix(e.list[1].atom, "bv") {
		return e.list[1].atom[2:]
	}
	if f, ok := fpValue(e); ok {
		return f
	}
	return e.String()
}


// ModelWith returns, from ONE model of the path condition, the values of all
// declared variables and of the given extra terms.
func (s *Solver) ModelWith(ts []*Term) (SatResult, map[string]string, []string) {
	names := make([]string, len(ts))
	for i, t := range ts {
		names[i] = s.termString(t)
	}
	s.nQueries++
	var sb strings.Builder
	for _, l := range s.log {
		sb.WriteString(l + "\n")
	}
	sb.WriteString("(check-sat)\n(get-value (")
	for _, v := range s.vars {
		sb.WriteString(v.name + " ")
	}
	for _, n := range names {
		sb.WriteString(n + " ")
	}
	sb.WriteString("))\n")
	f, err := os.CreateTemp("", "symgo-w-*.smt2")
	if err != nil {
		return Unknown, nil, nil
	}
	defer os.Remove(f.Name())
	f.WriteString(sb.String())
	f.Close()
	out, _ := exec.Command(s.bin, fmt.Sprintf("-T:%d", s.timeoutMs/1000+1), f.Name()).Output()
	txt := strings.TrimSpace(string(out))
	lines := strings.SplitN(txt, "\n", 2)
	if strings.TrimSpace(lines[0]) != "sat" || len(lines) < 2 {
		return Unknown, nil, nil
	}
	pos := 0
	e := parseSexp(lines[1], &pos)
	m := map[string]string{}
	vals := make([]string, len(ts))
	if e == nil || len(e.list) < len(s.vars)+len(ts) {
		return Unknown, nil, nil
	}
	for i, v := range s.vars {
		m[v.name] = canonValue(e.list[i].list[1])
	}
	for i := range ts {
		vals[i] = canonValue(e.list[len(s.vars)+i].list[1])
	}
	return Sat, m, vals
}


// fpValue renders an SMT-LIB Float64 value as a Go float literal.
func fpValue(e *sexp) (string, bool) {
	if len(e.list) == 4 && e.list[0].atom == "fp" {
		bits := ""
		for _, part := range e.list[1:] {
			a := part.atom
			switch {
			case strings.HasPrefix(a, "#b"):
				bits += a[2:]
			case strings.HasPrefix(a, "#x"):
				v, _ := new(big.Int).SetString(a[2:], 16)
				bits += fmt.Sprintf("%0*b", 4*(len(a)-2), v)
			default:
				return "", false
			}
		}
		if len(bits) != 64 {
			return "", false
		}
		v, _ := new(big.Int).SetString(bits, 2)
		return strconv.FormatFloat(math.Float64frombits(v.Uint64()), 'g', -1, 64), true
	}
	if len(e.list) == 4 && e.list[0].atom == "_" {
		switch e.list[1].atom {
		case "+zero":
			return "0", true
		case "-zero":
			return "-0", true
		case "+oo":
			return "+Inf", true
		case "-oo":
			return "-Inf", true
		case "NaN":
			return "NaN", true
		}
	}
	return "", false
}
