package main

// CtxObj models sdk.Context: block height, stores, event manager.
type CtxObj struct {
	height *Term
	stores map[string]*StoreObj
	evmgr  Value
}

type StoreObj struct {
	name    string
	entries []storeEntry
}

type storeEntry struct {
	key []*Term
	val Value
}
