package main

import "golang.org/x/tools/go/ssa"

// CtxObj models sdk.Context: block height, stores, event manager.
type CtxObj struct {
	height *Term
	stores map[string]*StoreObj
	evmgr  Value
}

type StoreObj struct {
	name    string
	entries []storeEntry
}

type storeEntry struct {
	key []*Term
	val Value
}

// ---------- addresses ----------
// bech32 is modelled as a bijection between 20-byte addresses and the strings
// "addr:"+<20 raw bytes>; every other string is malformed.

func init() {
	reg("verif_Addr", func(p *Path, fn *ssa.Function, a []Value) Value {
		i := p.concreteInt(a[0], "verif_Addr index")
		b := make([]byte, 20)
		for k := range b {
			b[k] = byte(i + 1)
		}
		return StrV{s: "addr:" + string(b)}
	})
	fromBech := func(p *Path, fn *ssa.Function, a []Value) Value {
		s := a[0].(StrV)
		n := strLen(s)
		bad := func(msg string) Value { return TupleV{SliceV{isNil: true}, p.newError(msg, nil)} }
		if n == 0 {
			return bad("empty address string is not allowed")
		}
		if n != 25 {
			return bad("decoding bech32 failed")
		}
		bs := strBytes(s)
		pre := "addr:"
		cs := make([]*Term, 5)
		for i := 0; i < 5; i++ {
			cs[i] = byteEq(bs[i], mkInt64(int64(pre[i])))
		}
		if !p.decide(tAnd(cs...)) {
			return bad("decoding bech32 failed")
		}
		vals := make([]Value, 20)
		for i := range vals {
			vals[i] = bs[5+i]
		}
		return TupleV{p.sliceFrom(vals), IfaceV{}}
	}
	reg(sdkT+"AccAddressFromBech32", fromBech)
	reg("("+sdkT+"AccAddress).String", func(p *Path, fn *ssa.Function, a []Value) Value {
		s := a[0].(SliceV)
		if s.len == 0 {
			return StrV{}
		}
		if s.len != 20 {
			p.unsup("AccAddress.String on %d-byte address", s.len)
		}
		bs := []*Term{}
		for _, c := range "addr:" {
			bs = append(bs, mkInt64(int64(c)))
		}
		bs = append(bs, sliceTerms(s)...)
		return mkStr(bs)
	})
	reg(sdkT+"VerifyAddressFormat", func(p *Path, fn *ssa.Function, a []Value) Value {
		s := a[0].(SliceV)
		if s.len != 20 {
			return p.newError("incorrect address length", nil)
		}
		return IfaceV{}
	})
}
