package main

import (
	"fmt"
	"go/types"

	"golang.org/x/tools/go/ssa"
)

// ---------- chain environment model (DESIGN §2.4): context, KV stores, codec, params ----------

type CtxObj struct {
	height *Term
	stores map[*Cell]*StoreObj // keyed by the *KVStoreKey cell
	evmgr  Value               // *sdk.EventManager (real struct)
	params map[string]Value    // param sets by dynamic type
	ms     *msObj
}

type msObj struct{ stores map[*Cell]*StoreObj }

type StoreObj struct {
	name    string
	entries []storeEntry // kept sorted by key when keys are comparable
	writes  int
}

type storeEntry struct {
	key []*Term
	val Value // SliceV (raw bytes or blob)
}

type BlobObj struct {
	val Value
	typ types.Type
}

type IterObj struct {
	items []storeEntry
	pos   int
	closed bool
}

func ctxOf(p *Path, v Value) *CtxObj {
	ov, ok := v.(OpaqueV)
	if !ok || (ov.kind != "ctx" && ov.kind != "goctx") {
		if iv, ok2 := v.(IfaceV); ok2 {
			return ctxOf(p, iv.v)
		}
		p.unsup("expected sdk.Context, got %T", v)
	}
	c := ov.data.(*CtxObj)
	if c == nil {
		p.unsup("use of zero sdk.Context")
	}
	return c
}

func mkCtx(c *CtxObj) Value { return OpaqueV{kind: "ctx", data: c} }

func (p *Path) keyBytes(v Value) []*Term {
	s, ok := v.(SliceV)
	if !ok {
		p.unsup("store key is %T", v)
	}
	if s.blob != nil {
		p.unsup("blob used as store key")
	}
	return sliceTerms(s)
}

func keysEqual(a, b []*Term) *Term {
	if len(a) != len(b) {
		return tFalse
	}
	cs := make([]*Term, len(a))
	for i := range a {
		cs[i] = byteEq(a[i], b[i])
	}
	return tAnd(cs...)
}

func hasPrefixT(k, pre []*Term) *Term {
	if len(pre) > len(k) {
		return tFalse
	}
	cs := make([]*Term, len(pre))
	for i := range pre {
		cs[i] = byteEq(k[i], pre[i])
	}
	return tAnd(cs...)
}

func (p *Path) storeFind(s *StoreObj, k []*Term) int {
	for i, e := range s.entries {
		if p.decide(keysEqual(e.key, k)) {
			return i
		}
	}
	return -1
}

func (p *Path) storeSet(s *StoreObj, k []*Term, v Value) {
	s.writes++
	if i := p.storeFind(s, k); i >= 0 {
		ne := make([]storeEntry, len(s.entries))
		copy(ne, s.entries)
		ne[i] = storeEntry{key: e0(ne[i].key), val: v}
		s.entries = ne
		return
	}
	// insert in bytewise order
	pos := len(s.entries)
	for i, e := range s.entries {
		if p.decide(bytesLess(k, e.key, false)) {
			pos = i
			break
		}
	}
	ne := make([]storeEntry, 0, len(s.entries)+1)
	ne = append(ne, s.entries[:pos]...)
	ne = append(ne, storeEntry{key: k, val: v})
	ne = append(ne, s.entries[pos:]...)
	s.entries = ne
}

func e0(k []*Term) []*Term { return k }

func (p *Path) storeDelete(s *StoreObj, k []*Term) {
	s.writes++
	if i := p.storeFind(s, k); i >= 0 {
		ne := make([]storeEntry, 0, len(s.entries))
		ne = append(ne, s.entries[:i]...)
		ne = append(ne, s.entries[i+1:]...)
		s.entries = ne
	}
}

func (p *Path) bytesValue(ts []*Term) Value {
	vals := make([]Value, len(ts))
	for i, t := range ts {
		vals[i] = t
	}
	s := p.sliceFrom(vals)
	return s
}

func (p *Path) mkIter(items []storeEntry) Value {
	return IfaceV{t: opaqueType, v: OpaqueV{kind: "iter", data: &IterObj{items: items}}}
}

func (p *Path) storeRange(s *StoreObj, start, end Value, reverse bool) Value {
	var lo, hi []*Term
	hasLo, hasHi := false, false
	if sv, ok := start.(SliceV); ok && !sv.isNil {
		lo, hasLo = sliceTerms(sv), true
	}
	if sv, ok := end.(SliceV); ok && !sv.isNil {
		hi, hasHi = sliceTerms(sv), true
	}
	var items []storeEntry
	for _, e := range s.entries {
		if hasLo && !p.decide(bytesLess(lo, e.key, true)) {
			continue
		}
		if hasHi && !p.decide(bytesLess(e.key, hi, false)) {
			continue
		}
		items = append(items, e)
	}
	if reverse {
		for i, j := 0, len(items)-1; i < j; i, j = i+1, j-1 {
			items[i], items[j] = items[j], items[i]
		}
	}
	return p.mkIter(items)
}

func (p *Path) storePrefixIter(s *StoreObj, pre []*Term) Value {
	var items []storeEntry
	for _, e := range s.entries {
		if p.decide(hasPrefixT(e.key, pre)) {
			items = append(items, e)
		}
	}
	return p.mkIter(items)
}

// deepCopy copies a value the way a protobuf round trip does: fresh cells for
// everything reachable, empty slices become nil, nil sdk.Int becomes 0.
func (p *Path) deepCopy(v Value, memo map[*Cell]*Cell) Value {
	switch x := v.(type) {
	case BigV:
		if x.isNil {
			return BigV{t: mkInt64(0)}
		}
		return x
	case StructV:
		f := make([]Value, len(x.f))
		for i, e := range x.f {
			f[i] = p.deepCopy(e, memo)
		}
		return StructV{f}
	case ArrayV:
		f := make([]Value, len(x.e))
		for i, e := range x.e {
			f[i] = p.deepCopy(e, memo)
		}
		return ArrayV{f}
	case PtrV:
		if x.c == nil {
			return x
		}
		if n, ok := memo[x.c]; ok {
			return PtrV{c: n, path: x.path}
		}
		n := p.newCell(nil, x.c.typ)
		memo[x.c] = n
		n.v = p.deepCopy(x.c.v, memo)
		return PtrV{c: n, path: x.path}
	case SliceV:
		if x.isNil || x.len == 0 {
			return SliceV{isNil: true}
		}
		if x.blob != nil || x.lazy != nil {
			return x
		}
		vals := make([]Value, x.len)
		for i, e := range x.elems() {
			vals[i] = p.deepCopy(e, memo)
		}
		return p.sliceFrom(vals)
	case MapV:
		if x.m == nil || len(x.m.entries) == 0 {
			return MapV{}
		}
		n := p.newMap(x.m.kt, x.m.vt)
		for _, e := range x.m.entries {
			n.entries = append(n.entries, MapEntry{p.deepCopy(e.k, memo), p.deepCopy(e.v, memo)})
		}
		return MapV{n}
	case IfaceV:
		if x.t == nil {
			return x
		}
		return IfaceV{t: x.t, v: p.deepCopy(x.v, memo)}
	}
	return v
}

func (p *Path) marshal(o Value) Value {
	iv, ok := o.(IfaceV)
	if !ok || iv.t == nil {
		p.throwRuntime("marshal of nil message")
	}
	ptr, ok := iv.v.(PtrV)
	if !ok || ptr.c == nil {
		p.throwRuntime("marshal of nil message pointer")
	}
	val := p.deepCopy(ptr.load(), map[*Cell]*Cell{})
	return SliceV{blob: &BlobObj{val: val, typ: iv.t}, len: 1, cap: 1}
}

func (p *Path) unmarshal(bz Value, o Value) Value {
	s, ok := bz.(SliceV)
	if !ok {
		p.unsup("unmarshal of %T", bz)
	}
	iv := o.(IfaceV)
	ptr := iv.v.(PtrV)
	if s.blob == nil {
		if s.isNil || s.len == 0 {
			// empty input decodes to the zero message
			ptr.store(zeroValue(deref(iv.t)))
			return IfaceV{}
		}
		p.unsup("unmarshal of raw bytes (protobuf wire format is not encoded)")
	}
	if !types.Identical(s.blob.typ, iv.t) {
		p.unsup("unmarshal of %v into %v", s.blob.typ, iv.t)
	}
	ptr.store(p.deepCopy(s.blob.val, map[*Cell]*Cell{}))
	return IfaceV{}
}

func (p *Path) sdkFunc(name string) *ssa.Function {
	pkg := p.eng.prog.ImportedPackage("github.com/cosmos/cosmos-sdk/types")
	if pkg == nil {
		p.unsup("cosmos-sdk/types not loaded")
	}
	fn := pkg.Func(name)
	if fn == nil {
		p.unsup("sdk function %s not found", name)
	}
	return fn
}

func init() {
	C := "(" + sdkT + "Context)."
	reg("verif_NewContext", func(p *Path, fn *ssa.Function, a []Value) Value {
		h := a[0].(*Term)
		c := &CtxObj{height: bvToInt(h, true), stores: map[*Cell]*StoreObj{}, params: map[string]Value{}}
		c.evmgr = p.callFunction(p.sdkFunc("NewEventManager"), nil, nil, nil)
		for _, k := range sliceArgs(a[1]) {
			kp := k.(IfaceV).v.(PtrV)
			c.stores[kp.c] = &StoreObj{name: fmt.Sprint(len(c.stores))}
		}
		return mkCtx(c)
	})
	reg("verif_ForkContext", func(p *Path, fn *ssa.Function, a []Value) Value {
		c := *ctxOf(p, a[0])
		ns := map[*Cell]*StoreObj{}
		for k, s := range c.stores {
			cp := *s
			ns[k] = &cp
		}
		c.stores = ns
		np := map[string]Value{}
		for k, v := range c.params {
			np[k] = v
		}
		c.params = np
		return mkCtx(&c)
	})
	reg("verif_Codec", func(p *Path, fn *ssa.Function, a []Value) Value {
		return IfaceV{t: opaqueType, v: OpaqueV{kind: "codec", data: "codec"}}
	})
	reg("verif_Subspace", func(p *Path, fn *ssa.Function, a []Value) Value {
		return zeroValue(fn.Signature.Results().At(0).Type())
	})
	reg(C+"KVStore", func(p *Path, fn *ssa.Function, a []Value) Value {
		c := ctxOf(p, a[0])
		kp, ok := a[1].(IfaceV).v.(PtrV)
		if !ok {
			p.unsup("store key of type %T", a[1].(IfaceV).v)
		}
		s := c.stores[kp.c]
		if s == nil {
			p.throwRuntime("kv store with key has not been registered in stores")
		}
		return IfaceV{t: opaqueType, v: OpaqueV{kind: "store", data: s}}
	})
	reg(C+"BlockHeight", func(p *Path, fn *ssa.Function, a []Value) Value { return ctxOf(p, a[0]).height })
	reg(C+"EventManager", func(p *Path, fn *ssa.Function, a []Value) Value { return ctxOf(p, a[0]).evmgr })
	reg(C+"Logger", func(p *Path, fn *ssa.Function, a []Value) Value {
		return IfaceV{t: opaqueType, v: OpaqueV{kind: "logger", data: "logger"}}
	})
	reg(C+"WithBlockHeight", func(p *Path, fn *ssa.Function, a []Value) Value {
		c := *ctxOf(p, a[0])
		c.height = bvToInt(a[1].(*Term), true)
		return mkCtx(&c)
	})
	reg(C+"WithEventManager", func(p *Path, fn *ssa.Function, a []Value) Value {
		c := *ctxOf(p, a[0])
		c.evmgr = a[1]
		return mkCtx(&c)
	})
	// CacheContext: a branch of the context (copy-on-write stores, its own parameter view and a
	// FRESH event manager, as in this SDK fork) and a function that writes the branch's stores back
	boundIntrinsics["ctxwrite"] = func(p *Path, recv Value, a []Value) Value {
		pair := recv.(TupleV)
		parent, child := pair[0].(OpaqueV).data.(*CtxObj), pair[1].(OpaqueV).data.(*CtxObj)
		for k, s := range child.stores {
			if ps := parent.stores[k]; ps != nil {
				*ps = *s // the parent's store object is shared with every context derived from it
			}
		}
		for k, v := range child.params {
			parent.params[k] = v
		}
		return nil
	}
	reg(C+"CacheContext", func(p *Path, fn *ssa.Function, a []Value) Value {
		parent := ctxOf(p, a[0])
		c := *parent
		ns := map[*Cell]*StoreObj{}
		for k, s := range c.stores {
			cp := *s
			cp.entries = append([]storeEntry{}, s.entries...)
			ns[k] = &cp
		}
		c.stores = ns
		np := map[string]Value{}
		for k, v := range c.params {
			np[k] = v
		}
		c.params = np
		c.evmgr = p.callFunction(p.sdkFunc("NewEventManager"), nil, nil, nil)
		child := mkCtx(&c)
		return TupleV{child, FuncV{intr: "ctxwrite", recv: TupleV{mkCtx(parent), child}}}
	})
	reg(C+"IsCheckTx", func(p *Path, fn *ssa.Function, a []Value) Value { return tFalse })
	reg(C+"IsReCheckTx", func(p *Path, fn *ssa.Function, a []Value) Value { return tFalse })
	reg(C+"Context", func(p *Path, fn *ssa.Function, a []Value) Value {
		return IfaceV{t: opaqueType, v: OpaqueV{kind: "goctx", data: ctxOf(p, a[0])}}
	})
	reg(sdkT+"WrapSDKContext", func(p *Path, fn *ssa.Function, a []Value) Value {
		return IfaceV{t: opaqueType, v: OpaqueV{kind: "goctx", data: ctxOf(p, a[0])}}
	})
	reg(sdkT+"UnwrapSDKContext", func(p *Path, fn *ssa.Function, a []Value) Value { return mkCtx(ctxOf(p, a[0])) })
	reg(sdkT+"KVStorePrefixIterator", func(p *Path, fn *ssa.Function, a []Value) Value {
		s := a[0].(IfaceV).v.(OpaqueV)
		if s.kind != "store" {
			p.unsup("KVStorePrefixIterator on %s", s.kind)
		}
		return p.storePrefixIter(s.data.(*StoreObj), p.keyBytes(a[1]))
	})
	reg(sdkT+"KVStoreReversePrefixIterator", func(p *Path, fn *ssa.Function, a []Value) Value {
		s := a[0].(IfaceV).v.(OpaqueV)
		it := p.storePrefixIter(s.data.(*StoreObj), p.keyBytes(a[1])).(IfaceV).v.(OpaqueV).data.(*IterObj)
		for i, j := 0, len(it.items)-1; i < j; i, j = i+1, j-1 {
			it.items[i], it.items[j] = it.items[j], it.items[i]
		}
		return p.mkIter(it.items)
	})

	// store methods
	om := opaqueMethods
	om["store.Get"] = func(p *Path, ov OpaqueV, a []Value) Value {
		s := ov.data.(*StoreObj)
		if i := p.storeFind(s, p.keyBytes(a[0])); i >= 0 {
			return s.entries[i].val
		}
		return SliceV{isNil: true}
	}
	om["store.Has"] = func(p *Path, ov OpaqueV, a []Value) Value {
		s := ov.data.(*StoreObj)
		return mkBool(p.storeFind(s, p.keyBytes(a[0])) >= 0)
	}
	om["store.Set"] = func(p *Path, ov OpaqueV, a []Value) Value {
		v := a[1].(SliceV)
		if v.isNil {
			p.throwRuntime("value is nil")
		}
		if v.blob == nil {
			// detach from the caller's backing array
			v = p.bytesValue(sliceTerms(v)).(SliceV)
		}
		p.storeSet(ov.data.(*StoreObj), p.keyBytes(a[0]), v)
		return nil
	}
	om["store.Delete"] = func(p *Path, ov OpaqueV, a []Value) Value {
		p.storeDelete(ov.data.(*StoreObj), p.keyBytes(a[0]))
		return nil
	}
	om["store.Iterator"] = func(p *Path, ov OpaqueV, a []Value) Value {
		return p.storeRange(ov.data.(*StoreObj), a[0], a[1], false)
	}
	om["store.ReverseIterator"] = func(p *Path, ov OpaqueV, a []Value) Value {
		return p.storeRange(ov.data.(*StoreObj), a[0], a[1], true)
	}
	om["iter.Valid"] = func(p *Path, ov OpaqueV, a []Value) Value {
		it := ov.data.(*IterObj)
		return mkBool(it.pos < len(it.items))
	}
	om["iter.Next"] = func(p *Path, ov OpaqueV, a []Value) Value {
		it := ov.data.(*IterObj)
		if it.pos >= len(it.items) {
			p.throwRuntime("iterator is invalid")
		}
		it.pos++
		return nil
	}
	om["iter.Key"] = func(p *Path, ov OpaqueV, a []Value) Value {
		it := ov.data.(*IterObj)
		if it.pos >= len(it.items) {
			p.throwRuntime("iterator is invalid")
		}
		return p.bytesValue(it.items[it.pos].key)
	}
	om["iter.Value"] = func(p *Path, ov OpaqueV, a []Value) Value {
		it := ov.data.(*IterObj)
		if it.pos >= len(it.items) {
			p.throwRuntime("iterator is invalid")
		}
		return it.items[it.pos].val
	}
	om["iter.Close"] = func(p *Path, ov OpaqueV, a []Value) Value {
		ov.data.(*IterObj).closed = true
		return IfaceV{}
	}
	om["iter.Error"] = func(p *Path, ov OpaqueV, a []Value) Value { return IfaceV{} }
	om["iter.Domain"] = func(p *Path, ov OpaqueV, a []Value) Value {
		return TupleV{SliceV{isNil: true}, SliceV{isNil: true}}
	}

	// codec
	om["codec.MustMarshalBinaryBare"] = func(p *Path, ov OpaqueV, a []Value) Value { return p.marshal(a[0]) }
	om["codec.MarshalBinaryBare"] = func(p *Path, ov OpaqueV, a []Value) Value { return TupleV{p.marshal(a[0]), IfaceV{}} }
	om["codec.MustUnmarshalBinaryBare"] = func(p *Path, ov OpaqueV, a []Value) Value {
		p.unmarshal(a[0], a[1])
		return nil
	}
	om["codec.UnmarshalBinaryBare"] = func(p *Path, ov OpaqueV, a []Value) Value { return p.unmarshal(a[0], a[1]) }

	// params subspace: the param set lives in the context model, keyed by its dynamic type
	PS := "(github.com/cosmos/cosmos-sdk/x/params/types.Subspace)."
	reg(PS+"GetParamSet", func(p *Path, fn *ssa.Function, a []Value) Value {
		c := ctxOf(p, a[1])
		iv := a[2].(IfaceV)
		v, ok := c.params[iv.t.String()]
		if !ok {
			p.throwRuntime("parameter set not initialised: " + iv.t.String())
		}
		iv.v.(PtrV).store(p.deepCopy(v, map[*Cell]*Cell{}))
		return nil
	})
	reg(PS+"SetParamSet", func(p *Path, fn *ssa.Function, a []Value) Value {
		c := ctxOf(p, a[1])
		iv := a[2].(IfaceV)
		c.params[iv.t.String()] = p.deepCopy(iv.v.(PtrV).load(), map[*Cell]*Cell{})
		return nil
	})
	reg(PS+"HasKeyTable", func(p *Path, fn *ssa.Function, a []Value) Value { return tTrue })
	reg(PS+"WithKeyTable", func(p *Path, fn *ssa.Function, a []Value) Value { return a[0] })
}

// ---------- addresses ----------
// bech32 is modelled as a bijection between 20-byte addresses and the strings
// "addr:"+<20 raw bytes>; every other string is malformed.

func init() {
	reg("verif_Addr", func(p *Path, fn *ssa.Function, a []Value) Value {
		i := p.concreteInt(a[0], "verif_Addr index")
		b := make([]byte, 20)
		for k := range b {
			b[k] = byte(i + 1)
		}
		return StrV{s: "addr:" + string(b)}
	})
	reg("verif_AddrUpper", func(p *Path, fn *ssa.Function, a []Value) Value {
		i := p.concreteInt(a[0], "verif_AddrUpper index")
		b := make([]byte, 20)
		for k := range b {
			b[k] = byte(i + 1)
		}
		return StrV{s: "ADDR:" + string(b)}
	})
	reg("verif_AddrSym", func(p *Path, fn *ssa.Function, a []Value) Value {
		ts := p.newInput(p.strArg(a[0]), "bytes", SBV, 8, 20)
		bs := []*Term{}
		for _, c := range "addr:" {
			bs = append(bs, mkInt64(int64(c)))
		}
		return mkStr(append(bs, ts...))
	})
	reg("verif_Digits", func(p *Path, fn *ssa.Function, a []Value) Value {
		n := p.concreteInt(a[1], "verif_Digits n")
		return mkStr(p.newInput(p.strArg(a[0]), "bytes", SBV, 8, n))
	})
	fromBech := func(p *Path, fn *ssa.Function, a []Value) Value {
		s := a[0].(StrV)
		n := strLen(s)
		bad := func(msg string) Value { return TupleV{SliceV{isNil: true}, p.newError(msg, nil)} }
		if n == 0 {
			return bad("empty address string is not allowed")
		}
		if n != 25 {
			return bad("decoding bech32 failed")
		}
		bs := strBytes(s)
		// bech32 text is valid in all-lowercase and in all-uppercase; both spellings decode to the
		// same account ("ADDR:" stands for the uppercase spelling), String() yields the lowercase one
		match := func(pre string) *Term {
			cs := make([]*Term, 5)
			for i := 0; i < 5; i++ {
				cs[i] = byteEq(bs[i], mkInt64(int64(pre[i])))
			}
			return tAnd(cs...)
		}
		if !p.decide(match("addr:")) && !p.decide(match("ADDR:")) {
			return bad("decoding bech32 failed")
		}
		vals := make([]Value, 20)
		for i := range vals {
			vals[i] = bs[5+i]
		}
		return TupleV{p.sliceFrom(vals), IfaceV{}}
	}
	reg(sdkT+"AccAddressFromBech32", fromBech)
	reg("("+sdkT+"AccAddress).String", func(p *Path, fn *ssa.Function, a []Value) Value {
		s := a[0].(SliceV)
		if s.len == 0 {
			return StrV{}
		}
		if s.len != 20 {
			p.unsup("AccAddress.String on %d-byte address", s.len)
		}
		bs := []*Term{}
		for _, c := range "addr:" {
			bs = append(bs, mkInt64(int64(c)))
		}
		bs = append(bs, sliceTerms(s)...)
		return mkStr(bs)
	})
	reg(sdkT+"VerifyAddressFormat", func(p *Path, fn *ssa.Function, a []Value) Value {
		s := a[0].(SliceV)
		if s.len != 20 {
			return p.newError("incorrect address length", nil)
		}
		return IfaceV{}
	})
}
