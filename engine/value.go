package main

import (
	"fmt"
	"go/types"
	"math/big"
	"sort"
	"strings"

	"golang.org/x/tools/go/ssa"
)

type Value interface{}

// BigV is the content of a math/big.Int or a cosmos-sdk Int/Uint: an exact
// mathematical integer.  isNil models sdk.Int{} (nil inner pointer).
type BigV struct {
	t     *Term
	isNil bool
}

// DecV models sdk.Dec as an exact rational num/10^18 (only used concretely/limited).
type StructV struct{ f []Value } // immutable: copy before changing
type ArrayV struct{ e []Value }  // immutable: copy before changing

type Cell struct {
	v   Value
	id  int
	typ types.Type
}

type PtrV struct {
	c    *Cell
	path []int
	sym  *symIndex // element of the array at path selected by a symbolic index (read-only)
}

type symIndex struct {
	idx    *Term
	signed bool
}

type SliceV struct {
	c        *Cell // cell holding an ArrayV (at path)
	path     []int
	off      int
	len, cap int
	isNil    bool
	blob     *BlobObj // opaque encoded message (codec model); len is 1
	lazy     *StrV    // bytes of a lazily formatted string (length unknown)
}

// StrV: concrete string s, or symbolic bytes (fixed length) in sym.
type StrV struct {
	s     string
	sym   []*Term
	parts []StrPart // lazy formatted text (see decString); length unknown
}

// StrPart is a literal piece, the decimal rendering of an integer term, or an
// unformattable piece (approx) that makes the string usable only as a message.
type StrPart struct {
	lit    string
	dec    *Term
	approx bool
}

type MapEntry struct {
	k, v Value
}
type MapObj struct {
	id      int
	entries []MapEntry
	kt, vt  types.Type
}
type MapV struct{ m *MapObj }

type IfaceV struct {
	t types.Type // dynamic type; nil for nil interface
	v Value
}

type FuncV struct {
	fn    *ssa.Function
	binds []Value
	// bound intrinsic method
	intr string
	recv Value
}

type TupleV []Value

// OpaqueV: engine-modelled objects (context, store, iterator, blob, error, logger...)
type OpaqueV struct {
	kind string
	data interface{}
}

type ChanObj struct {
	id     int
	cap    int
	buf    []Value
	closed bool
	et     types.Type
	// environment source: generator closure and readiness contract
	envGen   Value // FuncV producing a fresh value, or nil
	envLimit int   // max deliveries (-1 unlimited)
	envCount int
	sink     bool
	sent     []Value // log of everything ever sent
	label    string
	pending  *inflightOp // in-flight operation delivering its result on this chan
	envRecv  bool        // environment receives from this (unbuffered) channel
	sinkFn   Value       // callback invoked with every value the environment receives
	gateLog  []string    // gate steps of the task that filled the buffer (logged at receive time)
	final    bool        // final source: still fires when the step budget is exhausted
	envPush  bool        // the environment is a CALLER sending on this channel: if it is buffered the send completes when the value is queued
}
type ChanV struct{ ch *ChanObj }

func isNilValue(v Value) bool {
	switch x := v.(type) {
	case nil:
		return true
	case PtrV:
		return x.c == nil
	case SliceV:
		return x.isNil
	case MapV:
		return x.m == nil
	case IfaceV:
		return x.t == nil
	case FuncV:
		return x.fn == nil && x.intr == ""
	case ChanV:
		return x.ch == nil
	}
	return false
}

func strConcrete(s StrV) (string, bool) {
	if s.parts != nil {
		return "", false
	}
	if s.sym == nil {
		return s.s, true
	}
	bs := make([]byte, len(s.sym))
	for i, t := range s.sym {
		if !t.cst {
			return "", false
		}
		bs[i] = byte(t.ival.Int64())
	}
	return string(bs), true
}

func strLen(s StrV) int {
	if s.parts != nil {
		panic(unsupported{"length of a lazily formatted string"})
	}
	if s.sym != nil {
		return len(s.sym)
	}
	return len(s.s)
}

func strBytes(s StrV) []*Term {
	if s.parts != nil {
		panic(unsupported{"bytes of a lazily formatted string"})
	}
	if s.sym != nil {
		return s.sym
	}
	out := make([]*Term, len(s.s))
	for i := 0; i < len(s.s); i++ {
		out[i] = mkInt64(int64(s.s[i]))
	}
	return out
}

func mkStr(bs []*Term) StrV {
	all := true
	for _, b := range bs {
		if !b.cst {
			all = false
			break
		}
	}
	if all {
		x := make([]byte, len(bs))
		for i, b := range bs {
			x[i] = byte(b.ival.Int64())
		}
		return StrV{s: string(x)}
	}
	if len(bs) == 0 {
		return StrV{}
	}
	return StrV{sym: bs}
}

// ---------- zero values ----------

func isBigIntType(t types.Type) bool {
	if n, ok := t.(*types.Named); ok {
		o := n.Obj()
		if o.Pkg() != nil {
			p := o.Pkg().Path()
			if p == "math/big" && o.Name() == "Int" {
				return true
			}
		}
	}
	return false
}

func isSdkIntType(t types.Type) bool {
	if n, ok := t.(*types.Named); ok {
		o := n.Obj()
		if o.Pkg() != nil && o.Pkg().Path() == "github.com/cosmos/cosmos-sdk/types" && (o.Name() == "Int" || o.Name() == "Uint") {
			return true
		}
	}
	return false
}

func namedIs(t types.Type, pkg, name string) bool {
	if n, ok := t.(*types.Named); ok {
		o := n.Obj()
		return o.Pkg() != nil && o.Pkg().Path() == pkg && o.Name() == name
	}
	return false
}

func zeroValue(t types.Type) Value {
	if isSdkIntType(t) {
		return BigV{isNil: true}
	}
	if isBigIntType(t) {
		return BigV{t: mkInt64(0)}
	}
	if namedIs(t, "github.com/cosmos/cosmos-sdk/types", "Context") {
		return OpaqueV{kind: "ctx", data: (*CtxObj)(nil)}
	}
	switch u := t.Underlying().(type) {
	case *types.Basic:
		switch {
		case u.Info()&types.IsBoolean != 0:
			return tFalse
		case u.Info()&types.IsInteger != 0:
			return mkInt64(0)
		case u.Info()&types.IsFloat != 0:
			return fpConst(0)
		case u.Info()&types.IsString != 0:
			return StrV{}
		case u.Kind() == types.UnsafePointer:
			return PtrV{}
		case u.Kind() == types.UntypedNil:
			return nil
		}
	case *types.Struct:
		f := make([]Value, u.NumFields())
		for i := range f {
			f[i] = zeroValue(u.Field(i).Type())
		}
		return StructV{f}
	case *types.Array:
		e := make([]Value, u.Len())
		if u.Len() > 0 {
			z := zeroValue(u.Elem())
			for i := range e {
				e[i] = z
			}
		}
		return ArrayV{e}
	case *types.Pointer:
		return PtrV{}
	case *types.Slice:
		return SliceV{isNil: true}
	case *types.Map:
		return MapV{}
	case *types.Interface:
		return IfaceV{}
	case *types.Signature:
		return FuncV{}
	case *types.Chan:
		return ChanV{}
	case *types.Tuple:
		tv := make(TupleV, u.Len())
		for i := range tv {
			tv[i] = zeroValue(u.At(i).Type())
		}
		return tv
	}
	panic(unsupported{fmt.Sprintf("zero value of %v", t)})
}

func fpConst(f float64) *Term {
	// printed via a real-to-fp conversion of an exact decimal/rational
	r := new(big.Rat).SetFloat64(f)
	var lit string
	if r == nil {
		panic(unsupported{"non-finite float constant"})
	}
	num, den := r.Num(), r.Denom()
	if den.Cmp(big.NewInt(1)) == 0 {
		lit = smtReal(num)
	} else {
		lit = "(/ " + smtReal(num) + " " + smtReal(den) + ")"
	}
	return &Term{kind: SFP, cst: true, name: "((_ to_fp 11 53) RNE " + lit + ")", size: 1, ival: nil, op: fmt.Sprintf("%v", f)}
}

func smtReal(v *big.Int) string {
	if v.Sign() < 0 {
		return "(- " + new(big.Int).Neg(v).String() + ".0)"
	}
	return v.String() + ".0"
}

// ---------- navigation through immutable composite values ----------

func getPath(v Value, path []int) Value {
	for _, i := range path {
		switch x := v.(type) {
		case StructV:
			v = x.f[i]
		case ArrayV:
			if i < 0 || i >= len(x.e) {
				panic(unsupported{"getPath index out of range"})
			}
			v = x.e[i]
		default:
			panic(unsupported{fmt.Sprintf("getPath through %T", v)})
		}
	}
	return v
}

func setPath(v Value, path []int, nv Value) Value {
	if len(path) == 0 {
		return nv
	}
	i := path[0]
	switch x := v.(type) {
	case StructV:
		f := make([]Value, len(x.f))
		copy(f, x.f)
		f[i] = setPath(x.f[i], path[1:], nv)
		return StructV{f}
	case ArrayV:
		e := make([]Value, len(x.e))
		copy(e, x.e)
		e[i] = setPath(x.e[i], path[1:], nv)
		return ArrayV{e}
	}
	panic(unsupported{fmt.Sprintf("setPath through %T", v)})
}

func (p PtrV) load() Value     { return getPath(p.c.v, p.path) }
func (p PtrV) store(v Value)   { p.c.v = setPath(p.c.v, p.path, v) }
func (p PtrV) sub(i int) PtrV  { np := make([]int, len(p.path)+1); copy(np, p.path); np[len(p.path)] = i; return PtrV{c: p.c, path: np} }
func samePath(a, b []int) bool {
	if len(a) != len(b) {
		return false
	}
	for i := range a {
		if a[i] != b[i] {
			return false
		}
	}
	return true
}

func (s SliceV) elemPtr(i int) PtrV {
	np := make([]int, len(s.path)+1)
	copy(np, s.path)
	np[len(s.path)] = s.off + i
	return PtrV{c: s.c, path: np}
}
func (s SliceV) get(i int) Value { return s.elemPtr(i).load() }
func (s SliceV) elems() []Value {
	if s.lazy != nil {
		panic(unsupported{"byte access to a lazily formatted string"})
	}
	if s.blob != nil {
		panic(unsupported{"byte access to an encoded message (protobuf wire format is not modelled)"})
	}
	if s.len == 0 {
		return nil
	}
	arr := getPath(s.c.v, s.path).(ArrayV)
	return arr.e[s.off : s.off+s.len]
}

// ---------- debug printing ----------

func valString(v Value) string {
	switch x := v.(type) {
	case nil:
		return "nil"
	case *Term:
		return x.String()
	case BigV:
		if x.isNil {
			return "Int(nil)"
		}
		return "Int(" + x.t.String() + ")"
	case StructV:
		parts := make([]string, len(x.f))
		for i, f := range x.f {
			parts[i] = valString(f)
		}
		return "{" + strings.Join(parts, ", ") + "}"
	case ArrayV:
		parts := make([]string, len(x.e))
		for i, f := range x.e {
			parts[i] = valString(f)
		}
		return "[" + strings.Join(parts, ", ") + "]"
	case PtrV:
		if x.c == nil {
			return "nil"
		}
		return fmt.Sprintf("&c%d%v", x.c.id, x.path)
	case SliceV:
		if x.isNil {
			return "[]nil"
		}
		parts := []string{}
		for _, e := range x.elems() {
			parts = append(parts, valString(e))
		}
		return "[]{" + strings.Join(parts, ", ") + "}"
	case StrV:
		if s, ok := strConcrete(x); ok {
			return fmt.Sprintf("%q", s)
		}
		if x.parts != nil {
			return "str(lazy:" + (&Path{}).msgOf(x) + ")"
		}
		parts := []string{}
		for _, b := range x.sym {
			parts = append(parts, b.String())
		}
		return "str[" + strings.Join(parts, " ") + "]"
	case MapV:
		if x.m == nil {
			return "map(nil)"
		}
		parts := []string{}
		for _, e := range x.m.entries {
			parts = append(parts, valString(e.k)+":"+valString(e.v))
		}
		sort.Strings(parts)
		return "map{" + strings.Join(parts, ", ") + "}"
	case IfaceV:
		if x.t == nil {
			return "iface(nil)"
		}
		return "iface(" + x.t.String() + ":" + valString(x.v) + ")"
	case FuncV:
		if x.fn != nil {
			return "func " + x.fn.String()
		}
		return "func(" + x.intr + ")"
	case TupleV:
		parts := make([]string, len(x))
		for i, f := range x {
			parts[i] = valString(f)
		}
		return "(" + strings.Join(parts, ", ") + ")"
	case OpaqueV:
		return "opaque:" + x.kind
	case ChanV:
		if x.ch == nil {
			return "chan(nil)"
		}
		return fmt.Sprintf("chan#%d", x.ch.id)
	}
	return fmt.Sprintf("%T", v)
}
