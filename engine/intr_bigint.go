package main

import (
	"fmt"
	"math/big"

	"golang.org/x/tools/go/ssa"
)

const sdkT = "github.com/cosmos/cosmos-sdk/types."

func (p *Path) big(v Value) *Term {
	switch x := v.(type) {
	case BigV:
		if x.isNil {
			p.throwRuntime("nil pointer dereference (sdk.Int{} used as number)")
		}
		return x.t
	case PtrV: // *big.Int
		if x.c == nil {
			p.throwRuntime("nil *big.Int")
		}
		b, ok := x.load().(BigV)
		if !ok {
			p.unsup("*big.Int cell holds %T", x.load())
		}
		return b.t
	}
	p.unsup("expected big integer, got %T", v)
	return nil
}

// sdkResult applies the SDK's 255-bit limit as a path assumption (the real
// code panics beyond it; such paths are transaction rejections / outside the claim).
func (p *Path) sdkResult(t *Term) Value {
	if t.cst && t.ival.CmpAbs(sdkIntLimit) > 0 {
		p.throwRuntime("Int overflow")
	}
	return BigV{t: t}
}

func (p *Path) toGoInt(t *Term, w int, signed bool, what string) Value {
	lo, hi := intRange(w, signed)
	if !p.decide(rangeTerm(t, lo, hi)) {
		p.throwRuntime(what + " out of bound")
	}
	return t
}

func init() {
	for _, ty := range []string{"Int", "Uint"} {
		T := "(" + sdkT + ty + ")."
		un := ty == "Uint"
		reg(T+"IsNil", func(p *Path, fn *ssa.Function, a []Value) Value { return mkBool(a[0].(BigV).isNil) })
		reg(T+"IsZero", func(p *Path, fn *ssa.Function, a []Value) Value { return tEq(p.big(a[0]), mkInt64(0)) })
		reg(T+"IsNegative", func(p *Path, fn *ssa.Function, a []Value) Value { return iLt(p.big(a[0]), mkInt64(0)) })
		reg(T+"IsPositive", func(p *Path, fn *ssa.Function, a []Value) Value { return iGt(p.big(a[0]), mkInt64(0)) })
		reg(T+"Sign", func(p *Path, fn *ssa.Function, a []Value) Value {
			t := p.big(a[0])
			return tIte(iLt(t, mkInt64(0)), mkInt64(-1), tIte(iGt(t, mkInt64(0)), mkInt64(1), mkInt64(0)))
		})
		reg(T+"Equal", func(p *Path, fn *ssa.Function, a []Value) Value { return tEq(p.big(a[0]), p.big(a[1])) })
		reg(T+"GT", func(p *Path, fn *ssa.Function, a []Value) Value { return iGt(p.big(a[0]), p.big(a[1])) })
		reg(T+"GTE", func(p *Path, fn *ssa.Function, a []Value) Value { return iGe(p.big(a[0]), p.big(a[1])) })
		reg(T+"LT", func(p *Path, fn *ssa.Function, a []Value) Value { return iLt(p.big(a[0]), p.big(a[1])) })
		reg(T+"LTE", func(p *Path, fn *ssa.Function, a []Value) Value { return iLe(p.big(a[0]), p.big(a[1])) })
		reg(T+"Add", func(p *Path, fn *ssa.Function, a []Value) Value { return p.sdkResult(iAdd(p.big(a[0]), p.big(a[1]))) })
		reg(T+"AddRaw", func(p *Path, fn *ssa.Function, a []Value) Value {
			return p.sdkResult(iAdd(p.big(a[0]), bvToInt(a[1].(*Term), true)))
		})
		reg(T+"Sub", func(p *Path, fn *ssa.Function, a []Value) Value {
			r := iSub(p.big(a[0]), p.big(a[1]))
			if un {
				if p.decide(iLt(r, mkInt64(0))) {
					p.throwRuntime("Uint underflow")
				}
			}
			return p.sdkResult(r)
		})
		reg(T+"SubRaw", func(p *Path, fn *ssa.Function, a []Value) Value {
			return p.sdkResult(iSub(p.big(a[0]), bvToInt(a[1].(*Term), true)))
		})
		reg(T+"Mul", func(p *Path, fn *ssa.Function, a []Value) Value { return p.sdkResult(iMul(p.big(a[0]), p.big(a[1]))) })
		reg(T+"MulRaw", func(p *Path, fn *ssa.Function, a []Value) Value {
			return p.sdkResult(iMul(p.big(a[0]), bvToInt(a[1].(*Term), true)))
		})
		quo := func(p *Path, x, y *Term) Value {
			if p.decide(tEq(y, mkInt64(0))) {
				p.throwRuntime("Division by zero")
			}
			return p.sdkResult(p.quoT(x, y))
		}
		reg(T+"Quo", func(p *Path, fn *ssa.Function, a []Value) Value { return quo(p, p.big(a[0]), p.big(a[1])) })
		reg(T+"QuoRaw", func(p *Path, fn *ssa.Function, a []Value) Value {
			return quo(p, p.big(a[0]), bvToInt(a[1].(*Term), true))
		})
		// sdk.Int.Mod uses big.Int.Mod: Euclidean modulus, panics on zero
		mod := func(p *Path, x, y *Term) Value {
			if p.decide(tEq(y, mkInt64(0))) {
				p.throwRuntime("Division by zero")
			}
			return p.sdkResult(iModE(x, y))
		}
		reg(T+"Mod", func(p *Path, fn *ssa.Function, a []Value) Value { return mod(p, p.big(a[0]), p.big(a[1])) })
		reg(T+"ModRaw", func(p *Path, fn *ssa.Function, a []Value) Value {
			return mod(p, p.big(a[0]), bvToInt(a[1].(*Term), true))
		})
		reg(T+"Neg", func(p *Path, fn *ssa.Function, a []Value) Value { return BigV{t: iNeg(p.big(a[0]))} })
		reg(T+"Int64", func(p *Path, fn *ssa.Function, a []Value) Value { return p.toGoInt(p.big(a[0]), 64, true, "Int64()") })
		reg(T+"Uint64", func(p *Path, fn *ssa.Function, a []Value) Value {
			return p.toGoInt(p.big(a[0]), 64, false, "Uint64()")
		})
		reg(T+"IsInt64", func(p *Path, fn *ssa.Function, a []Value) Value {
			lo, hi := intRange(64, true)
			return rangeTerm(p.big(a[0]), lo, hi)
		})
		reg(T+"IsUint64", func(p *Path, fn *ssa.Function, a []Value) Value {
			lo, hi := intRange(64, false)
			return rangeTerm(p.big(a[0]), lo, hi)
		})
		reg(T+"BigInt", func(p *Path, fn *ssa.Function, a []Value) Value {
			b := a[0].(BigV)
			if b.isNil {
				return PtrV{}
			}
			return PtrV{c: p.newCell(BigV{t: b.t}, nil)}
		})
		reg(T+"String", func(p *Path, fn *ssa.Function, a []Value) Value { return decString(p.big(a[0])) })
		reg(T+"ToDec", func(p *Path, fn *ssa.Function, a []Value) Value {
			return OpaqueV{kind: "dec", data: &DecObj{num: p.big(a[0]), den: mkInt64(1)}}
		})
	}
	reg(sdkT+"NewInt", func(p *Path, fn *ssa.Function, a []Value) Value { return BigV{t: bvToInt(a[0].(*Term), true)} })
	reg(sdkT+"NewIntFromUint64", func(p *Path, fn *ssa.Function, a []Value) Value {
		return BigV{t: bvToInt(a[0].(*Term), false)}
	})
	reg(sdkT+"NewUint", func(p *Path, fn *ssa.Function, a []Value) Value { return BigV{t: bvToInt(a[0].(*Term), false)} })
	reg(sdkT+"ZeroInt", func(p *Path, fn *ssa.Function, a []Value) Value { return BigV{t: mkInt64(0)} })
	reg(sdkT+"OneInt", func(p *Path, fn *ssa.Function, a []Value) Value { return BigV{t: mkInt64(1)} })
	reg(sdkT+"ZeroUint", func(p *Path, fn *ssa.Function, a []Value) Value { return BigV{t: mkInt64(0)} })
	reg(sdkT+"NewIntFromBigInt", func(p *Path, fn *ssa.Function, a []Value) Value {
		ptr := a[0].(PtrV)
		if ptr.c == nil {
			return BigV{isNil: true}
		}
		return p.sdkResult(p.big(a[0]))
	})
	reg(sdkT+"NewIntFromString", func(p *Path, fn *ssa.Function, a []Value) Value {
		t, ok := parseDec(a[0].(StrV), true)
		if !ok {
			if _, conc := strConcrete(a[0].(StrV)); !conc {
				p.unsup("NewIntFromString of symbolic text")
			}
			return TupleV{BigV{isNil: true}, tFalse}
		}
		return TupleV{p.sdkResult(t), tTrue}
	})
	reg(sdkT+"MinInt", func(p *Path, fn *ssa.Function, a []Value) Value {
		x, y := p.big(a[0]), p.big(a[1])
		return BigV{t: tIte(iLt(x, y), x, y)}
	})
	reg(sdkT+"MaxInt", func(p *Path, fn *ssa.Function, a []Value) Value {
		x, y := p.big(a[0]), p.big(a[1])
		return BigV{t: tIte(iGt(x, y), x, y)}
	})

	// math/big.Int (receiver-style API)
	B := "(*math/big.Int)."
	set := func(p *Path, z Value, t *Term) Value {
		zp := z.(PtrV)
		if zp.c == nil {
			p.throwRuntime("nil *big.Int receiver")
		}
		zp.store(BigV{t: t})
		return z
	}
	bin := func(f func(x, y *Term) *Term) Intrinsic {
		return func(p *Path, fn *ssa.Function, a []Value) Value { return set(p, a[0], f(p.big(a[1]), p.big(a[2]))) }
	}
	reg(B+"Add", bin(iAdd))
	reg(B+"Sub", bin(iSub))
	reg(B+"Mul", bin(iMul))
	reg(B+"Quo", func(p *Path, fn *ssa.Function, a []Value) Value {
		y := p.big(a[2])
		if p.decide(tEq(y, mkInt64(0))) {
			p.throwRuntime("division by zero")
		}
		return set(p, a[0], p.quoT(p.big(a[1]), y))
	})
	reg(B+"Rem", func(p *Path, fn *ssa.Function, a []Value) Value {
		y := p.big(a[2])
		if p.decide(tEq(y, mkInt64(0))) {
			p.throwRuntime("division by zero")
		}
		return set(p, a[0], iRemT(p.big(a[1]), y))
	})
	reg(B+"Div", func(p *Path, fn *ssa.Function, a []Value) Value {
		y := p.big(a[2])
		if p.decide(tEq(y, mkInt64(0))) {
			p.throwRuntime("division by zero")
		}
		return set(p, a[0], iDivE(p.big(a[1]), y))
	})
	reg(B+"Mod", func(p *Path, fn *ssa.Function, a []Value) Value {
		y := p.big(a[2])
		if p.decide(tEq(y, mkInt64(0))) {
			p.throwRuntime("division by zero")
		}
		return set(p, a[0], iModE(p.big(a[1]), y))
	})
	reg(B+"Neg", func(p *Path, fn *ssa.Function, a []Value) Value { return set(p, a[0], iNeg(p.big(a[1]))) })
	reg(B+"Abs", func(p *Path, fn *ssa.Function, a []Value) Value {
		x := p.big(a[1])
		return set(p, a[0], tIte(iLt(x, mkInt64(0)), iNeg(x), x))
	})
	reg(B+"Set", func(p *Path, fn *ssa.Function, a []Value) Value { return set(p, a[0], p.big(a[1])) })
	reg(B+"SetInt64", func(p *Path, fn *ssa.Function, a []Value) Value { return set(p, a[0], bvToInt(a[1].(*Term), true)) })
	reg(B+"SetUint64", func(p *Path, fn *ssa.Function, a []Value) Value {
		return set(p, a[0], bvToInt(a[1].(*Term), false))
	})
	reg("math/big.NewInt", func(p *Path, fn *ssa.Function, a []Value) Value {
		return PtrV{c: p.newCell(BigV{t: bvToInt(a[0].(*Term), true)}, nil)}
	})
	reg(B+"Cmp", func(p *Path, fn *ssa.Function, a []Value) Value {
		x, y := p.big(a[0]), p.big(a[1])
		return tIte(iLt(x, y), mkInt64(-1), tIte(iGt(x, y), mkInt64(1), mkInt64(0)))
	})
	reg(B+"Sign", func(p *Path, fn *ssa.Function, a []Value) Value {
		t := p.big(a[0])
		return tIte(iLt(t, mkInt64(0)), mkInt64(-1), tIte(iGt(t, mkInt64(0)), mkInt64(1), mkInt64(0)))
	})
	reg(B+"Int64", func(p *Path, fn *ssa.Function, a []Value) Value { return wrapInt(p.big(a[0]), 64, true) })
	reg(B+"Uint64", func(p *Path, fn *ssa.Function, a []Value) Value {
		x := p.big(a[0])
		return wrapInt(tIte(iLt(x, mkInt64(0)), iNeg(x), x), 64, false)
	})
	reg(B+"IsInt64", func(p *Path, fn *ssa.Function, a []Value) Value {
		lo, hi := intRange(64, true)
		return rangeTerm(p.big(a[0]), lo, hi)
	})
	reg(B+"IsUint64", func(p *Path, fn *ssa.Function, a []Value) Value {
		lo, hi := intRange(64, false)
		return rangeTerm(p.big(a[0]), lo, hi)
	})
	reg(B+"String", func(p *Path, fn *ssa.Function, a []Value) Value {
		if a[0].(PtrV).c == nil {
			return StrV{s: "<nil>"}
		}
		return decString(p.big(a[0]))
	})
	// Bytes / SetBytes: big-endian magnitude, minimal length.  The byte length
	// of a symbolic value is decided by forking on its magnitude range.
	reg(B+"Bytes", func(p *Path, fn *ssa.Function, a []Value) Value {
		x := p.big(a[0])
		mag := tIte(iLt(x, mkInt64(0)), iNeg(x), x)
		if mag.cst {
			bs := mag.ival.Bytes()
			vals := make([]Value, len(bs))
			for i, b := range bs {
				vals[i] = mkInt64(int64(b))
			}
			return p.sliceFrom(vals)
		}
		maxLen := p.eng.maxBigBytes
		n := -1
		for k := 0; k <= maxLen; k++ {
			if p.decide(iLt(mag, mkInt(pow2(8*k)))) {
				n = k
				break
			}
		}
		if n < 0 {
			panic(pathAbort{"unwind"})
		}
		// definitional encoding: fresh byte variables with mag = sum b_i * 256^(n-1-i), 0 <= b_i <= 255
		// (the bytes are uniquely determined, so this adds no freedom); far cheaper for the solver
		// than div/mod extraction once the bytes are compared with other keys.  Memoised per value.
		key := fmt.Sprintf("bigbytes:%p:%d", mag, n)
		if v, ok := p.aux[key]; ok {
			return p.sliceFrom(v.([]Value))
		}
		vals := make([]Value, n)
		sum := mkInt64(0)
		for i := 0; i < n; i++ {
			b := p.sol.FreshVar("bigbyte", SInt, 0)
			p.sol.Assert(tAnd(iLe(mkInt64(0), b), iLe(b, mkInt64(255))))
			vals[i] = b
			sum = iAdd(sum, iMul(b, mkInt(pow2(8*(n-1-i)))))
		}
		p.sol.Assert(tEq(sum, mag))
		p.aux[key] = vals
		return p.sliceFrom(vals)
	})
	reg(B+"SetBytes", func(p *Path, fn *ssa.Function, a []Value) Value {
		s := a[1].(SliceV)
		acc := mkInt64(0)
		for _, e := range s.elems() {
			acc = iAdd(iMul(acc, mkInt64(256)), bvToInt(e.(*Term), false))
		}
		return set(p, a[0], acc)
	})
	reg(B+"BitLen", func(p *Path, fn *ssa.Function, a []Value) Value {
		x := p.big(a[0])
		if x.cst {
			return mkInt64(int64(x.ival.BitLen()))
		}
		p.unsup("BitLen of symbolic big.Int")
		return nil
	})
	reg(B+"SetString", func(p *Path, fn *ssa.Function, a []Value) Value {
		base := p.concreteInt(a[2], "SetString base")
		if c, conc := strConcrete(a[1].(StrV)); conc {
			// concrete text: Go's own parser (any base; base 0 reads prefixes and a leading 0 as octal)
			v, ok := new(big.Int).SetString(c, base)
			if !ok {
				return TupleV{PtrV{}, tFalse}
			}
			set(p, a[0], mkInt(v))
			return TupleV{a[0], tTrue}
		}
		if base != 10 && base != 0 {
			p.unsup("big.Int.SetString base %d", base)
		}
		t, ok := parseDec(a[1].(StrV), true)
		if !ok {
			if _, conc := strConcrete(a[1].(StrV)); !conc {
				p.unsup("SetString of symbolic text")
			}
			return TupleV{PtrV{}, tFalse}
		}
		set(p, a[0], t)
		return TupleV{a[0], tTrue}
	})
}

type DecObj struct{ num, den *Term }

// decString is the decimal rendering of a mathematical integer.  Concrete
// values print exactly; symbolic ones become a lazy "dec(t)" string part that
// only the matching parse intrinsics can take apart (formatting and parsing
// are modelled as mutually inverse; digits are not encoded).
func decString(t *Term) StrV {
	if t.cst {
		return StrV{s: t.ival.String()}
	}
	return StrV{parts: []StrPart{{dec: t}}}
}

func parseDec(s StrV, allowSign bool) (*Term, bool) {
	if s.parts != nil {
		if len(s.parts) == 1 && s.parts[0].dec != nil {
			return s.parts[0].dec, true
		}
		return nil, false
	}
	c, ok := strConcrete(s)
	if !ok || c == "" {
		return nil, false
	}
	for i, r := range c {
		if r == '-' || r == '+' {
			if !allowSign || i != 0 || len(c) == 1 {
				return nil, false
			}
			continue
		}
		if r < '0' || r > '9' {
			return nil, false
		}
	}
	v, ok := new(big.Int).SetString(c, 10)
	if !ok {
		return nil, false
	}
	return mkInt(v), true
}


// quoT is truncated division; when the path condition fixes the signs of the
// operands the four-way case split of iQuoT collapses to a single div.
func (p *Path) quoT(x, y *Term) *Term {
	if x.cst && y.cst {
		return iQuoT(x, y)
	}
	zero := mkInt64(0)
	if p.entails(iGe(x, zero)) && p.entails(iGt(y, zero)) {
		return iDivE(x, y)
	}
	return iQuoT(x, y)
}

// entails: does the path condition imply c?  (syntactic shortcut, then solver)
func (p *Path) entails(c *Term) bool {
	if c.cst {
		return c.bval
	}
	return p.sol.Check(tNot(c)) == Unsat
}
