package main

import (
	"strings"
	"fmt"
	"go/token"
	"go/types"
	"math/big"

	"golang.org/x/tools/go/ssa"
)

func (p *Path) loopIter(fr *Frame, head *ssa.BasicBlock) {
	if fr.loops == nil {
		fr.loops = map[*ssa.BasicBlock]int{}
	}
	fr.loops[head]++
	if fr.loops[head] > p.eng.maxLoop {
		panic(pathAbort{"unwind"})
	}
}

// ---------- integer arithmetic in the dual representation ----------

func (p *Path) intBin(op token.Token, x, y *Term, w int, signed bool) Value {
	bothBV := x.kind == SBV && y.kind == SBV
	if x.kind == SBV && y.kind == SInt && y.cst {
		y = mkBV(y.ival, x.w)
		bothBV = true
	} else if y.kind == SBV && x.kind == SInt && x.cst && op != token.SHL && op != token.SHR {
		x = mkBV(x.ival, y.w)
		bothBV = true
	}
	switch op {
	case token.EQL, token.NEQ, token.LSS, token.LEQ, token.GTR, token.GEQ:
		var r *Term
		if bothBV {
			pre := "bvu"
			if signed {
				pre = "bvs"
			}
			switch op {
			case token.EQL:
				r = tEq(x, y)
			case token.NEQ:
				r = tNot(tEq(x, y))
			case token.LSS:
				r = bvCmp(pre+"lt", x, y)
			case token.LEQ:
				r = bvCmp(pre+"le", x, y)
			case token.GTR:
				r = bvCmp(pre+"gt", x, y)
			case token.GEQ:
				r = bvCmp(pre+"ge", x, y)
			}
			return r
		}
		xi, yi := bvToInt(x, signed), bvToInt(y, signed)
		switch op {
		case token.EQL:
			r = tEq(xi, yi)
		case token.NEQ:
			r = tNot(tEq(xi, yi))
		case token.LSS:
			r = iLt(xi, yi)
		case token.LEQ:
			r = iLe(xi, yi)
		case token.GTR:
			r = iGt(xi, yi)
		case token.GEQ:
			r = iGe(xi, yi)
		}
		return r
	}
	if op == token.SHL || op == token.SHR {
		return p.shift(op, x, y, w, signed)
	}
	if bothBV {
		switch op {
		case token.ADD:
			return bvBin("bvadd", x, y)
		case token.SUB:
			return bvBin("bvsub", x, y)
		case token.MUL:
			return bvBin("bvmul", x, y)
		case token.QUO, token.REM:
			if p.decide(tEq(y, mkBV(big.NewInt(0), w))) {
				p.throwRuntime("integer divide by zero")
			}
			n := map[token.Token]string{token.QUO: "div", token.REM: "rem"}[op]
			if signed {
				return bvBin("bvs"+n, x, y)
			}
			return bvBin("bvu"+n, x, y)
		case token.AND:
			return bvBin("bvand", x, y)
		case token.OR:
			return bvBin("bvor", x, y)
		case token.XOR:
			return bvBin("bvxor", x, y)
		case token.AND_NOT:
			return bvBin("bvand", x, mkApp(SBV, w, "bvnot", y))
		}
		p.unsup("bv binop %v", op)
	}
	// at least one Int-sorted operand
	switch op {
	case token.AND, token.OR, token.XOR, token.AND_NOT:
		if x.cst && y.cst {
			xb, yb := intToBV(x, w), intToBV(y, w)
			var r *Term
			switch op {
			case token.AND:
				r = bvBin("bvand", xb, yb)
			case token.OR:
				r = bvBin("bvor", xb, yb)
			case token.XOR:
				r = bvBin("bvxor", xb, yb)
			case token.AND_NOT:
				r = bvBin("bvand", xb, mkBV(new(big.Int).Not(yb.ival), w))
			}
			return bvToInt(r, signed)
		}
		// x & (2^k-1) on unsigned → mod
		if op == token.AND && !signed {
			if y.cst && isMask(y.ival) && x.kind == SInt {
				return iModE(x, mkInt(new(big.Int).Add(y.ival, big.NewInt(1))))
			}
			if x.cst && isMask(x.ival) && y.kind == SInt {
				return iModE(y, mkInt(new(big.Int).Add(x.ival, big.NewInt(1))))
			}
		}
		xb, yb := intToBV(x, w), intToBV(y, w)
		switch op {
		case token.AND:
			return bvBin("bvand", xb, yb)
		case token.OR:
			return bvBin("bvor", xb, yb)
		case token.XOR:
			return bvBin("bvxor", xb, yb)
		case token.AND_NOT:
			return bvBin("bvand", xb, mkApp(SBV, w, "bvnot", yb))
		}
	}
	xi, yi := bvToInt(x, signed), bvToInt(y, signed)
	switch op {
	case token.ADD:
		return wrapInt(iAdd(xi, yi), w, signed)
	case token.SUB:
		return wrapInt(iSub(xi, yi), w, signed)
	case token.MUL:
		return wrapInt(iMul(xi, yi), w, signed)
	case token.QUO, token.REM:
		if p.decide(tEq(yi, mkInt64(0))) {
			p.throwRuntime("integer divide by zero")
		}
		if op == token.QUO {
			if signed {
				return wrapInt(iQuoT(xi, yi), w, signed)
			}
			return iDivE(xi, yi)
		}
		if signed {
			return iRemT(xi, yi)
		}
		return iModE(xi, yi)
	}
	p.unsup("int binop %v", op)
	return nil
}

func isMask(v *big.Int) bool {
	if v.Sign() <= 0 {
		return false
	}
	n := new(big.Int).Add(v, big.NewInt(1))
	return new(big.Int).And(n, v).Sign() == 0
}

func (p *Path) shift(op token.Token, x, y *Term, w int, signed bool) Value {
	if y.cst {
		n := y.ival
		if y.kind == SBV {
			n = y.ival
		}
		if n.Sign() < 0 {
			p.throwRuntime("negative shift amount")
		}
		big := n.Cmp(big.NewInt(int64(w))) >= 0
		k := 0
		if !big {
			k = int(n.Int64())
		}
		if x.kind == SInt {
			if op == token.SHL {
				if big {
					return mkInt64(0)
				}
				return wrapInt(iMul(x, mkInt(pow2(k))), w, signed)
			}
			if big {
				if signed {
					return tIte(iLt(x, mkInt64(0)), mkInt64(-1), mkInt64(0))
				}
				return mkInt64(0)
			}
			return iDivE(x, mkInt(pow2(k))) // floor division = arithmetic / logical shift
		}
		kb := mkBV(n, w)
		if big {
			kb = mkBV(pow2(w-1), w) // any amount >= w
			kb = mkBV(bigInt(int64(w)), w)
		}
		if op == token.SHL {
			return bvBin("bvshl", x, kb)
		}
		if signed {
			return bvBin("bvashr", x, kb)
		}
		return bvBin("bvlshr", x, kb)
	}
	// symbolic shift count: go to bit-vectors
	xb := intToBV(x, w)
	var yb *Term
	if y.kind == SBV {
		if y.w < w {
			yb = bvZeroExt(y, w)
		} else if y.w > w {
			// saturate
			yb = tIte(bvCmp("bvuge", y, mkBV(bigInt(int64(w)), y.w)), mkBV(bigInt(int64(w)), w), bvExtract(y, w-1, 0))
		} else {
			yb = y
		}
	} else {
		yb = intToBV(tIte(iGe(y, mkInt64(int64(w))), mkInt64(int64(w)), y), w)
	}
	if op == token.SHL {
		return bvBin("bvshl", xb, yb)
	}
	if signed {
		return bvBin("bvashr", xb, yb)
	}
	return bvBin("bvlshr", xb, yb)
}

func bigInt(v int64) *big.Int { return big.NewInt(v) }

// ---------- generic binop ----------

func (p *Path) binop(op token.Token, x, y Value, xt types.Type, rt types.Type) Value {
	switch a := x.(type) {
	case *Term:
		b, ok := y.(*Term)
		if !ok {
			p.unsup("binop %v on Term and %T", op, y)
		}
		if a.kind == SBool {
			switch op {
			case token.EQL:
				return tEq(a, b)
			case token.NEQ:
				return tNot(tEq(a, b))
			case token.AND, token.LAND:
				return tAnd(a, b)
			case token.OR, token.LOR:
				return tOr(a, b)
			}
			p.unsup("bool binop %v", op)
		}
		if a.kind == SFP || b.kind == SFP {
			return p.floatBin(op, a, b)
		}
		if op == token.SHL || op == token.SHR {
			w, signed := intInfo(xt)
			return p.intBin(op, a, b, w, signed)
		}
		w, signed := intInfo(xt)
		return p.intBin(op, a, b, w, signed)
	case StrV:
		b := y.(StrV)
		switch op {
		case token.ADD:
			if a.parts != nil || b.parts != nil {
				return strConcatParts(a, b)
			}
			if a.sym == nil && b.sym == nil {
				return StrV{s: a.s + b.s}
			}
			return mkStr(append(append([]*Term{}, strBytes(a)...), strBytes(b)...))
		case token.EQL:
			return strEq(a, b)
		case token.NEQ:
			return tNot(strEq(a, b))
		case token.LSS:
			return strLess(a, b, false)
		case token.LEQ:
			return strLess(a, b, true)
		case token.GTR:
			return strLess(b, a, false)
		case token.GEQ:
			return strLess(b, a, true)
		}
		p.unsup("string binop %v", op)
	}
	switch op {
	case token.EQL:
		return p.valuesEqual(x, y)
	case token.NEQ:
		return tNot(p.valuesEqual(x, y))
	}
	p.unsup("binop %v on %T,%T", op, x, y)
	return nil
}

func byteEq(a, b *Term) *Term {
	if a.kind == b.kind {
		return tEq(a, b)
	}
	return tEq(bvToInt(a, false), bvToInt(b, false))
}
func byteLt(a, b *Term) *Term {
	if a.kind == SBV && b.kind == SBV {
		return bvCmp("bvult", a, b)
	}
	return iLt(bvToInt(a, false), bvToInt(b, false))
}

func toParts(a StrV) []StrPart {
	if a.parts != nil {
		return a.parts
	}
	if c, ok := strConcrete(a); ok {
		if c == "" {
			return nil
		}
		return []StrPart{{lit: c}}
	}
	panic(unsupported{"mixing byte-symbolic and lazily formatted strings"})
}

func strConcatParts(a, b StrV) StrV {
	ps := append(append([]StrPart{}, toParts(a)...), toParts(b)...)
	// merge adjacent literals
	var out []StrPart
	for _, q := range ps {
		if q.dec == nil && !q.approx && len(out) > 0 && out[len(out)-1].dec == nil && !out[len(out)-1].approx {
			out[len(out)-1].lit += q.lit
			continue
		}
		out = append(out, q)
	}
	if len(out) == 0 {
		return StrV{}
	}
	if len(out) == 1 && out[0].dec == nil && !out[0].approx {
		return StrV{s: out[0].lit}
	}
	return StrV{parts: out}
}

func strEqParts(a, b StrV) *Term {
	pa, pb := toParts(a), toParts(b)
	for _, q := range append(append([]StrPart{}, pa...), pb...) {
		if q.approx {
			panic(unsupported{"comparison of an approximately formatted string"})
		}
	}
	if len(pa) == 1 && len(pb) == 1 {
		x, y := pa[0], pb[0]
		if x.dec != nil && y.dec != nil {
			return tEq(x.dec, y.dec)
		}
		if x.dec == nil {
			x, y = y, x
		}
		// dec(t) == literal
		if v, ok := new(big.Int).SetString(y.lit, 10); ok && v.String() == y.lit {
			return tEq(x.dec, mkInt(v))
		}
		return tFalse
	}
	if len(pa) == len(pb) {
		cs := []*Term{}
		same := true
		for i := range pa {
			x, y := pa[i], pb[i]
			if (x.dec == nil) != (y.dec == nil) {
				same = false
				break
			}
			if x.dec == nil {
				if x.lit != y.lit {
					same = false
					break
				}
				continue
			}
			cs = append(cs, tEq(x.dec, y.dec))
		}
		// shape-equal strings whose literal separators contain no digit are equal iff the numbers are
		if same && sepsNonDigit(pa) {
			return tAnd(cs...)
		}
	}
	panic(unsupported{"comparison of lazily formatted strings of different shape"})
}

func sepsNonDigit(ps []StrPart) bool {
	for i, q := range ps {
		if q.dec != nil {
			if i+1 < len(ps) && ps[i+1].dec != nil {
				return false
			}
			continue
		}
		if i > 0 && ps[i-1].dec != nil && len(q.lit) > 0 && (q.lit[0] >= '0' && q.lit[0] <= '9') {
			return false
		}
		if i+1 < len(ps) && ps[i+1].dec != nil && len(q.lit) > 0 {
			c := q.lit[len(q.lit)-1]
			if c >= '0' && c <= '9' || c == '-' {
				return false
			}
		}
	}
	return true
}

func strEq(a, b StrV) *Term {
	if a.parts != nil || b.parts != nil {
		return strEqParts(a, b)
	}
	if a.sym == nil && b.sym == nil {
		return mkBool(a.s == b.s)
	}
	if strLen(a) != strLen(b) {
		return tFalse
	}
	ab, bb := strBytes(a), strBytes(b)
	cs := make([]*Term, len(ab))
	for i := range ab {
		cs[i] = byteEq(ab[i], bb[i])
	}
	return tAnd(cs...)
}

func bytesLess(ab, bb []*Term, orEq bool) *Term {
	// lexicographic
	n := len(ab)
	if len(bb) < n {
		n = len(bb)
	}
	var res *Term
	if len(ab) < len(bb) {
		res = tTrue
	} else if len(ab) == len(bb) {
		res = mkBool(orEq)
	} else {
		res = tFalse
	}
	for i := n - 1; i >= 0; i-- {
		res = tOr(byteLt(ab[i], bb[i]), tAnd(byteEq(ab[i], bb[i]), res))
	}
	return res
}

func strLess(a, b StrV, orEq bool) *Term {
	if a.sym == nil && b.sym == nil {
		if orEq {
			return mkBool(a.s <= b.s)
		}
		return mkBool(a.s < b.s)
	}
	return bytesLess(strBytes(a), strBytes(b), orEq)
}

func (p *Path) valuesEqual(x, y Value) *Term {
	switch a := x.(type) {
	case nil:
		return mkBool(isNilValue(y))
	case *Term:
		b := y.(*Term)
		if a.kind == SBool || a.kind == b.kind {
			if a.kind == SFP {
				return mkApp(SBool, 0, "fp.eq", a, b)
			}
			return tEq(a, b)
		}
		if a.cst || b.cst {
			return tEq(a, b)
		}
		p.unsup("equality of mixed-representation ints without type")
	case StrV:
		return strEq(a, y.(StrV))
	case BigV:
		p.unsup("== on big.Int/sdk.Int values")
	case PtrV:
		b, ok := y.(PtrV)
		if !ok {
			return mkBool(a.c == nil && isNilValue(y))
		}
		return mkBool(a.c == b.c && samePath(a.path, b.path))
	case StructV:
		b := y.(StructV)
		cs := make([]*Term, len(a.f))
		for i := range a.f {
			cs[i] = p.valuesEqual(a.f[i], b.f[i])
		}
		return tAnd(cs...)
	case ArrayV:
		b := y.(ArrayV)
		cs := make([]*Term, len(a.e))
		for i := range a.e {
			cs[i] = p.valuesEqual(a.e[i], b.e[i])
		}
		return tAnd(cs...)
	case IfaceV:
		b, ok := y.(IfaceV)
		if !ok {
			if isNilValue(y) {
				return mkBool(a.t == nil)
			}
			p.unsup("iface == %T", y)
		}
		if a.t == nil || b.t == nil {
			return mkBool(a.t == nil && b.t == nil)
		}
		if !types.Identical(a.t, b.t) {
			return tFalse
		}
		if oa, ok := a.v.(OpaqueV); ok {
			ob, ok2 := b.v.(OpaqueV)
			if !ok2 {
				return tFalse
			}
			return mkBool(opaqueSame(oa, ob))
		}
		return p.valuesEqual(a.v, b.v)
	case SliceV:
		if isNilValue(y) {
			return mkBool(a.isNil)
		}
		if b, ok := y.(SliceV); ok && b.isNil {
			return mkBool(a.isNil)
		}
	case MapV:
		if b, ok := y.(MapV); ok {
			return mkBool(a.m == b.m)
		}
		return mkBool(a.m == nil && isNilValue(y))
	case FuncV:
		if isNilValue(y) {
			return mkBool(isNilValue(a))
		}
	case ChanV:
		if b, ok := y.(ChanV); ok {
			return mkBool(a.ch == b.ch)
		}
		return mkBool(a.ch == nil && isNilValue(y))
	case OpaqueV:
		if b, ok := y.(OpaqueV); ok {
			return mkBool(opaqueSame(a, b))
		}
	}
	p.unsup("equality on %T,%T", x, y)
	return nil
}

func opaqueSame(a, b OpaqueV) bool {
	if a.kind != b.kind {
		return false
	}
	defer func() { recover() }()
	return a.data == b.data
}

// ---------- conversions ----------

func (p *Path) convert(v Value, from, to types.Type) Value {
	fu, tu := from.Underlying(), to.Underlying()
	switch {
	case isIntType(fu) && isIntType(tu):
		t := v.(*Term)
		fw, fs := intInfo(fu)
		tw, ts := intInfo(tu)
		if t.kind == SInt {
			// value preserving when source range ⊆ target range
			if (fs == ts && fw <= tw) || (!fs && ts && fw < tw) {
				return t
			}
			return wrapInt(t, tw, ts)
		}
		if tw == fw {
			return t
		}
		if tw < fw {
			return bvExtract(t, tw-1, 0)
		}
		if fs {
			return bvSignExt(t, tw)
		}
		return bvZeroExt(t, tw)
	case isIntType(fu) && isFloatType(tu):
		t := v.(*Term)
		_, fs := intInfo(fu)
		if t.cst {
			var iv *big.Int
			if t.kind == SBV && fs {
				iv = toSigned(t.ival, t.w)
			} else {
				iv = t.ival
			}
			f, _ := new(big.Float).SetInt(iv).Float64()
			return fpConst(f)
		}
		if x, sx, ok := bvView(t); ok {
			if sx {
				return mkApp(SFP, 0, "(_ to_fp 11 53) RNE", x)
			}
			return mkApp(SFP, 0, "(_ to_fp_unsigned 11 53) RNE", x)
		}
		if t.kind == SInt {
			return mkApp(SFP, 0, "(_ to_fp 11 53) RNE", mkApp(SInt, 0, "to_real", t))
		}
		if fs {
			return mkApp(SFP, 0, "(_ to_fp 11 53) RNE", t)
		}
		return mkApp(SFP, 0, "(_ to_fp_unsigned 11 53) RNE", t)
	case isFloatType(fu) && isIntType(tu):
		t := v.(*Term)
		tw, ts := intInfo(tu)
		// Go: truncation toward zero; out-of-range is implementation-defined (declared outside the claim)
		var bv *Term
		if ts {
			bv = mkApp(SBV, tw, fmt.Sprintf("(_ fp.to_sbv %d) RTZ", tw), t)
		} else {
			bv = mkApp(SBV, tw, fmt.Sprintf("(_ fp.to_ubv %d) RTZ", tw), t)
		}
		return bvToInt(bv, ts)
	case isFloatType(fu) && isFloatType(tu):
		return v
	case isStringType(fu) && isStringType(tu):
		return v
	case isStringType(fu):
		// string -> []byte / []rune
		sl, ok := tu.(*types.Slice)
		if !ok {
			break
		}
		s := v.(StrV)
		if b, ok := sl.Elem().Underlying().(*types.Basic); ok && b.Kind() == types.Uint8 {
			if s.parts != nil {
				cp := s
				return SliceV{lazy: &cp, len: 1, cap: 1}
			}
			bs := strBytes(s)
			vals := make([]Value, len(bs))
			for i, t := range bs {
				vals[i] = t
			}
			return p.sliceFrom(vals)
		}
		cs, ok := strConcrete(s)
		if !ok {
			p.unsup("symbolic string to []rune")
		}
		var vals []Value
		for _, r := range cs {
			vals = append(vals, mkInt64(int64(r)))
		}
		return p.sliceFrom(vals)
	case isStringType(tu):
		if sl, ok := fu.(*types.Slice); ok {
			s := v.(SliceV)
			if b, ok := sl.Elem().Underlying().(*types.Basic); ok && b.Kind() == types.Uint8 {
				if s.lazy != nil {
					return *s.lazy
				}
				bs := make([]*Term, s.len)
				for i, e := range s.elems() {
					bs[i] = e.(*Term)
				}
				return mkStr(bs)
			}
			// []rune
			rs := make([]rune, s.len)
			for i, e := range s.elems() {
				t := e.(*Term)
				if !t.cst {
					p.unsup("symbolic []rune to string")
				}
				rs[i] = rune(t.ival.Int64())
			}
			return StrV{s: string(rs)}
		}
		if isIntType(fu) {
			t := v.(*Term)
			if !t.cst {
				p.unsup("symbolic rune to string")
			}
			return StrV{s: string(rune(t.ival.Int64()))}
		}
	}
	if _, ok := tu.(*types.Pointer); ok {
		return v // unsafe.Pointer round trips
	}
	if b, ok := tu.(*types.Basic); ok && b.Kind() == types.UnsafePointer {
		return v
	}
	p.unsup("convert %v -> %v", from, to)
	return nil
}

// ---------- indexing ----------

// concretize forks on the value of a symbolic integer in [0,n).
func (p *Path) concretizeIndex(t *Term, n int, signed bool, w int) (int, bool) {
	if t.cst {
		v := t.ival
		if t.kind == SBV && signed {
			v = toSigned(v, t.w)
		}
		if !v.IsInt64() || v.Int64() < 0 || v.Int64() >= int64(n) {
			return 0, false
		}
		return int(v.Int64()), true
	}
	ti := bvToInt(t, signed)
	for i := 0; i < n; i++ {
		if p.decide(tEq(ti, mkInt64(int64(i)))) {
			return i, true
		}
	}
	return 0, false
}

func (p *Path) indexAddr(fr *Frame, x *ssa.IndexAddr) Value {
	base := p.eval(fr, x.X)
	idx := p.eval(fr, x.Index).(*Term)
	w, signed := intInfo(x.Index.Type())
	switch b := base.(type) {
	case SliceV:
		if !idx.cst && b.len > 0 && b.off == 0 && b.blob == nil && b.lazy == nil {
			if arr, ok := getPath(b.c.v, b.path).(ArrayV); ok && len(arr.e) == b.len && constTable(arr.e) {
				return PtrV{c: b.c, path: b.path, sym: &symIndex{idx: idx, signed: signed}}
			}
		}
		i, ok := p.concretizeIndex(idx, b.len, signed, w)
		if !ok {
			p.throwRuntime(fmt.Sprintf("index out of range [%s] with length %d", idx, b.len))
		}
		return b.elemPtr(i)
	case PtrV: // pointer to array
		if b.c == nil {
			p.throwRuntime("nil pointer dereference (index)")
		}
		arr := b.load().(ArrayV)
		if !idx.cst && constTable(arr.e) {
			// constant table read at a symbolic index: deferred to the load (ite chain, no forking)
			return PtrV{c: b.c, path: b.path, sym: &symIndex{idx: idx, signed: signed}}
		}
		i, ok := p.concretizeIndex(idx, len(arr.e), signed, w)
		if !ok {
			p.throwRuntime("index out of range")
		}
		return b.sub(i)
	}
	p.unsup("IndexAddr on %T", base)
	return nil
}

func (p *Path) index(fr *Frame, x *ssa.Index) Value {
	base := p.eval(fr, x.X)
	idx := p.eval(fr, x.Index).(*Term)
	w, signed := intInfo(x.Index.Type())
	switch b := base.(type) {
	case ArrayV:
		if !idx.cst && len(b.e) > 0 {
			if r, ok := p.iteSelect(b.e, idx, signed); ok {
				return r
			}
		}
		i, ok := p.concretizeIndex(idx, len(b.e), signed, w)
		if !ok {
			p.throwRuntime("index out of range")
		}
		return b.e[i]
	case StrV:
		bs := strBytes(b)
		i, ok := p.concretizeIndex(idx, len(bs), signed, w)
		if !ok {
			p.throwRuntime("string index out of range")
		}
		return bs[i]
	}
	p.unsup("Index on %T", base)
	return nil
}

// iteSelect reads a table of scalar terms at a symbolic index as an ite chain
// (one out-of-range decision instead of one fork per element).
func (p *Path) iteSelect(elems []Value, idx *Term, signed bool) (Value, bool) {
	for _, e := range elems {
		if t, ok := e.(*Term); !ok || !t.cst {
			return nil, false
		}
	}
	if idx.kind == SBV {
		// stay in the bit-vector domain (no bv2nat): index and table bytes as bit-vectors
		n := mkBV(bigInt(int64(len(elems))), idx.w)
		inRange := bvCmp("bvult", idx, n)
		if signed {
			inRange = tAnd(bvCmp("bvsge", idx, mkBV(bigInt(0), idx.w)), bvCmp("bvslt", idx, n))
		}
		if !p.decide(inRange) {
			p.throwRuntime("index out of range")
		}
		ew := 0
		for _, e := range elems {
			t := e.(*Term)
			if t.kind == SBV {
				ew = t.w
			}
		}
		conv := func(t *Term) *Term {
			if t.kind == SBV || ew == 0 {
				return t
			}
			return mkBV(t.ival, ew)
		}
		if ew == 0 {
			// Int-sorted constants: element width unknown here; use 64-bit and let callers convert
			for _, e := range elems {
				if e.(*Term).ival.BitLen() > 8 {
					ew = 64
				}
			}
			if ew == 0 {
				ew = 8
			}
			conv = func(t *Term) *Term { return mkBV(t.ival, ew) }
		}
		res := conv(elems[len(elems)-1].(*Term))
		for i := len(elems) - 2; i >= 0; i-- {
			res = tIte(tEq(idx, mkBV(bigInt(int64(i)), idx.w)), conv(elems[i].(*Term)), res)
		}
		return res, true
	}
	ii := bvToInt(idx, signed)
	inRange := tAnd(iGe(ii, mkInt64(0)), iLt(ii, mkInt64(int64(len(elems)))))
	if !p.decide(inRange) {
		p.throwRuntime("index out of range")
	}
	res := elems[len(elems)-1].(*Term)
	for i := len(elems) - 2; i >= 0; i-- {
		res = tIte(tEq(ii, mkInt64(int64(i))), elems[i].(*Term), res)
	}
	return res, true
}

func (p *Path) sliceOp(fr *Frame, x *ssa.Slice) Value {
	base := p.eval(fr, x.X)
	get := func(v ssa.Value, def int) int {
		if v == nil {
			return def
		}
		return p.concreteInt(p.eval(fr, v), "slice bound")
	}
	switch b := base.(type) {
	case SliceV:
		lo := get(x.Low, 0)
		hi := get(x.High, b.len)
		mx := get(x.Max, b.cap)
		if lo < 0 || hi < lo || hi > b.cap || mx > b.cap || mx < hi {
			p.throwRuntime("slice bounds out of range")
		}
		if b.isNil {
			return b
		}
		return SliceV{c: b.c, path: b.path, off: b.off + lo, len: hi - lo, cap: mx - lo}
	case StrV:
		n := strLen(b)
		lo := get(x.Low, 0)
		hi := get(x.High, n)
		if lo < 0 || hi < lo || hi > n {
			p.throwRuntime("string slice bounds out of range")
		}
		if b.sym == nil {
			return StrV{s: b.s[lo:hi]}
		}
		return mkStr(b.sym[lo:hi])
	case PtrV: // *array
		if b.c == nil {
			p.throwRuntime("nil pointer dereference (slice of array)")
		}
		arr := b.load().(ArrayV)
		n := len(arr.e)
		lo := get(x.Low, 0)
		hi := get(x.High, n)
		mx := get(x.Max, n)
		if lo < 0 || hi < lo || hi > n || mx > n {
			p.throwRuntime("slice bounds out of range")
		}
		return SliceV{c: b.c, path: b.path, off: lo, len: hi - lo, cap: mx - lo}
	}
	p.unsup("Slice on %T", base)
	return nil
}

// ---------- maps ----------

func (p *Path) keyEq(a, b Value, kt types.Type) *Term {
	switch x := a.(type) {
	case *Term:
		y := b.(*Term)
		if isIntType(kt) && x.kind != y.kind {
			_, s := intInfo(kt)
			return tEq(bvToInt(x, s), bvToInt(y, s))
		}
	}
	return p.valuesEqual(a, b)
}

func (p *Path) mapFind(m *MapObj, k Value) int {
	for i, e := range m.entries {
		if p.decide(p.keyEq(e.k, k, m.kt)) {
			return i
		}
	}
	return -1
}

func (p *Path) mapSet(m *MapObj, k, v Value) {
	if i := p.mapFind(m, k); i >= 0 {
		m.entries[i].v = v
		return
	}
	m.entries = append(m.entries, MapEntry{k, v})
}

func (p *Path) mapDelete(m *MapObj, k Value) {
	if i := p.mapFind(m, k); i >= 0 {
		m.entries = append(m.entries[:i:i], m.entries[i+1:]...)
	}
}

func (p *Path) lookup(fr *Frame, x *ssa.Lookup) Value {
	base := p.eval(fr, x.X)
	k := p.eval(fr, x.Index)
	if s, ok := base.(StrV); ok {
		idx := k.(*Term)
		bs := strBytes(s)
		w, signed := intInfo(x.Index.Type())
		i, ok := p.concretizeIndex(idx, len(bs), signed, w)
		if !ok {
			p.throwRuntime("string index out of range")
		}
		return bs[i]
	}
	m := base.(MapV)
	mt := x.X.Type().Underlying().(*types.Map)
	var val Value
	found := false
	if m.m != nil {
		if i := p.mapFind(m.m, k); i >= 0 {
			val = m.m.entries[i].v
			found = true
		}
	}
	if !found {
		val = zeroValue(mt.Elem())
	}
	if x.CommaOk {
		return TupleV{val, mkBool(found)}
	}
	return val
}

// ---------- range ----------

type rangeIter struct {
	isMap   bool
	m       *MapObj
	order   []MapEntry
	pos     int
	str     StrV
	strRunes []rune
	strOffs  []int
}

func (p *Path) rangeInit(fr *Frame, x *ssa.Range) Value {
	v := p.eval(fr, x.X)
	switch b := v.(type) {
	case MapV:
		it := &rangeIter{isMap: true, m: b.m}
		if b.m != nil {
			it.order = append([]MapEntry{}, b.m.entries...)
			if len(it.order) >= 2 {
				p.mapRanges++
				p.noteChoicePoint("map-range", fr.fn)
				if (p.eng.mapOrderChoice || p.mapChoice) && !p.isHarnessFunc(fr.fn) {
					// pick a permutation: successive choices
					rest := it.order
					var perm []MapEntry
					for len(rest) > 1 {
						i := p.choose(len(rest), "maporder")
						perm = append(perm, rest[i])
						nr := append([]MapEntry{}, rest[:i]...)
						rest = append(nr, rest[i+1:]...)
					}
					perm = append(perm, rest...)
					it.order = perm
				}
			}
		}
		return OpaqueV{kind: "rangeiter", data: it}
	case StrV:
		s, ok := strConcrete(b)
		if !ok {
			p.unsup("range over symbolic string")
		}
		it := &rangeIter{str: b}
		for off, r := range s {
			it.strRunes = append(it.strRunes, r)
			it.strOffs = append(it.strOffs, off)
		}
		return OpaqueV{kind: "rangeiter", data: it}
	}
	p.unsup("range over %T", v)
	return nil
}

func (p *Path) rangeNext(fr *Frame, x *ssa.Next) Value {
	it := p.eval(fr, x.Iter).(OpaqueV).data.(*rangeIter)
	tt := x.Type().(*types.Tuple)
	if it.isMap {
		for it.pos < len(it.order) {
			e := it.order[it.pos]
			it.pos++
			// entries deleted during iteration are skipped
			still := false
			for _, cur := range it.m.entries {
				if p.sameKeyObj(cur.k, e.k) {
					still = true
					e = cur
					break
				}
			}
			if !still {
				continue
			}
			return TupleV{tTrue, e.k, e.v}
		}
		return TupleV{tFalse, zeroOrNil(tt.At(1).Type()), zeroOrNil(tt.At(2).Type())}
	}
	if it.pos < len(it.strRunes) {
		i := it.pos
		it.pos++
		return TupleV{tTrue, mkInt64(int64(it.strOffs[i])), mkInt64(int64(it.strRunes[i]))}
	}
	return TupleV{tFalse, mkInt64(0), mkInt64(0)}
}

func zeroOrNil(t types.Type) Value {
	if b, ok := t.(*types.Basic); ok && b.Kind() == types.Invalid {
		return nil
	}
	return zeroValue(t)
}

func (p *Path) sameKeyObj(a, b Value) bool {
	t := p.valuesEqual(a, b)
	return t.cst && t.bval || t == tTrue || sameTermObj(a, b)
}

func sameTermObj(a, b Value) bool {
	x, ok := a.(*Term)
	y, ok2 := b.(*Term)
	return ok && ok2 && x == y
}

// ---------- type assertions ----------

func (p *Path) typeAssert(fr *Frame, x *ssa.TypeAssert) Value {
	v := p.eval(fr, x.X)
	iv, ok := v.(IfaceV)
	if !ok {
		p.unsup("TypeAssert on %T", v)
	}
	var res Value
	okk := false
	if iv.t != nil {
		if types.IsInterface(x.AssertedType) {
			it := x.AssertedType.Underlying().(*types.Interface)
			if p.implements(iv, it) {
				res, okk = iv, true
			}
		} else if types.Identical(iv.t, x.AssertedType) {
			res, okk = iv.v, true
		}
	}
	if x.CommaOk {
		if !okk {
			res = zeroValue(x.AssertedType)
		}
		return TupleV{res, mkBool(okk)}
	}
	if !okk {
		p.throwRuntime(fmt.Sprintf("interface conversion: %v is not %v", iv.t, x.AssertedType))
	}
	return res
}

func (p *Path) implements(iv IfaceV, it *types.Interface) bool {
	if ov, ok := iv.v.(OpaqueV); ok {
		if r, known := opaqueImplements(ov, it); known {
			return r
		}
	}
	return types.Implements(iv.t, it)
}

// ---------- builtins ----------

func (p *Path) callBuiltin(name string, args []Value, fr *Frame, cc *ssa.CallCommon) Value {
	switch name {
	case "len":
		switch a := args[0].(type) {
		case StrV:
			return mkInt64(int64(strLen(a)))
		case SliceV:
			return mkInt64(int64(a.len))
		case MapV:
			if a.m == nil {
				return mkInt64(0)
			}
			return mkInt64(int64(len(a.m.entries)))
		case ArrayV:
			return mkInt64(int64(len(a.e)))
		case PtrV:
			if a.c == nil {
				// len of nil *array is the array length from the type
				at := deref(cc.Args[0].Type()).Underlying().(*types.Array)
				return mkInt64(at.Len())
			}
			return mkInt64(int64(len(a.load().(ArrayV).e)))
		case ChanV:
			if a.ch == nil {
				return mkInt64(0)
			}
			return mkInt64(int64(len(a.ch.buf)))
		}
	case "cap":
		switch a := args[0].(type) {
		case SliceV:
			return mkInt64(int64(a.cap))
		case ArrayV:
			return mkInt64(int64(len(a.e)))
		case ChanV:
			if a.ch == nil {
				return mkInt64(0)
			}
			return mkInt64(int64(a.ch.cap))
		}
	case "append":
		s := args[0].(SliceV)
		var add []Value
		switch b := args[1].(type) {
		case SliceV:
			add = b.elems()
		case StrV:
			for _, t := range strBytes(b) {
				add = append(add, t)
			}
		}
		if len(add) == 0 {
			return s
		}
		if !s.isNil && s.len+len(add) <= s.cap {
			arr := getPath(s.c.v, s.path).(ArrayV)
			e := make([]Value, len(arr.e))
			copy(e, arr.e)
			copy(e[s.off+s.len:], add)
			s.c.v = setPath(s.c.v, s.path, ArrayV{e})
			s.len += len(add)
			return s
		}
		ncap := s.len + len(add)
		if ncap < 2*s.cap {
			ncap = 2 * s.cap
		}
		e := make([]Value, ncap)
		copy(e, s.elems())
		copy(e[s.len:], add)
		if ncap > s.len+len(add) {
			et := cc.Args[0].Type().Underlying().(*types.Slice).Elem()
			z := zeroValue(et)
			for i := s.len + len(add); i < ncap; i++ {
				e[i] = z
			}
		}
		return SliceV{c: p.newCell(ArrayV{e}, nil), len: s.len + len(add), cap: ncap}
	case "copy":
		dst := args[0].(SliceV)
		var src []Value
		switch b := args[1].(type) {
		case SliceV:
			src = append([]Value{}, b.elems()...)
		case StrV:
			for _, t := range strBytes(b) {
				src = append(src, t)
			}
		}
		n := len(src)
		if dst.len < n {
			n = dst.len
		}
		if n > 0 {
			arr := getPath(dst.c.v, dst.path).(ArrayV)
			e := make([]Value, len(arr.e))
			copy(e, arr.e)
			copy(e[dst.off:dst.off+n], src[:n])
			dst.c.v = setPath(dst.c.v, dst.path, ArrayV{e})
		}
		return mkInt64(int64(n))
	case "delete":
		m := args[0].(MapV)
		if m.m != nil {
			p.mapDelete(m.m, args[1])
		}
		return nil
	case "panic":
		p.throw(args[0], "panic")
	case "recover":
		df := p.deferFrame
		if df != nil && df.panicking != nil {
			v := df.panicking.val
			df.panicking = nil
			df.recovered = true
			if _, ok := v.(IfaceV); !ok {
				v = IfaceV{t: types.Typ[types.String], v: v}
			}
			return v
		}
		return IfaceV{}
	case "print", "println":
		return nil
	case "close":
		ch := args[0].(ChanV)
		if ch.ch == nil {
			p.throwRuntime("close of nil channel")
		}
		if ch.ch.closed {
			p.throwRuntime("close of closed channel")
		}
		ch.ch.closed = true
		return nil
	case "min", "max":
		t := cc.Args[0].Type()
		acc := args[0]
		for _, a := range args[1:] {
			var lt *Term
			if name == "min" {
				lt = p.binop(token.LSS, a, acc, t, nil).(*Term)
			} else {
				lt = p.binop(token.GTR, a, acc, t, nil).(*Term)
			}
			if at, ok := a.(*Term); ok {
				x, y := at, acc.(*Term)
				if x.kind != y.kind {
					_, s := intInfo(t)
					x, y = bvToInt(x, s), bvToInt(y, s)
				}
				acc = tIte(lt, x, y)
			} else if p.decide(lt) {
				acc = a
			}
		}
		return acc
	case "SliceData":
		// unsafe.SliceData: the slice itself stands for the pointer to its first element
		return args[0]
	case "String":
		// unsafe.String(ptr, len) with ptr from unsafe.SliceData
		if sl, ok := args[0].(SliceV); ok {
			n := p.concreteInt(args[1], "unsafe.String len")
			if n == 0 {
				return StrV{}
			}
			if n > sl.len {
				p.unsup("unsafe.String beyond the slice")
			}
			bs := make([]*Term, n)
			for i, e := range sl.elems()[:n] {
				bs[i] = e.(*Term)
			}
			return mkStr(bs)
		}
	case "ssa:deferstack":
		// the defer stack handle of go/ssa (range-over-func support): defers are kept per frame here
		return nil
	case "ssa:wrapnilchk":
		if isNilValue(args[0]) {
			p.throwRuntime("nil pointer dereference (method value wrapper)")
		}
		return args[0]
	}
	if len(args) == 0 {
		p.unsup("builtin %s without arguments", name)
	}
	p.unsup("builtin %s on %T", name, args[0])
	return nil
}


// isHarnessFunc: functions defined in overlay (harness/shim) files are not code under test.
func (p *Path) isHarnessFunc(fn *ssa.Function) bool {
	for f := fn; f != nil; f = f.Parent() {
		if f.Pos().IsValid() {
			name := p.eng.prog.Fset.Position(f.Pos()).Filename
			return strings.Contains(name, "zz_verif") || strings.Contains(name, "/zzverif/")
		}
	}
	return false
}


func constTable(es []Value) bool {
	if len(es) == 0 {
		return false
	}
	for _, e := range es {
		if t, ok := e.(*Term); !ok || !t.cst {
			return false
		}
	}
	return true
}

func (p *Path) symLoad(ptr PtrV) Value {
	arr := getPath(ptr.c.v, ptr.path).(ArrayV)
	r, ok := p.iteSelect(arr.e, ptr.sym.idx, ptr.sym.signed)
	if !ok {
		p.unsup("symbolic index into a table that is no longer constant")
	}
	return r
}
