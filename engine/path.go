package main

import (
	"runtime/debug"
	"fmt"
	"go/ast"
	"go/constant"
	"regexp"
	"go/token"
	"go/types"
	"golang.org/x/tools/go/packages"
	"os"
	"sort"
	"strings"
	"sync"
	"time"

	"golang.org/x/tools/go/ssa"
)

type Decision struct {
	v int // chosen alternative
	n int // number of alternatives (2 for branches)
}

type InputRec struct {
	Label string   `json:"label"`
	Kind  string   `json:"kind"` // int, i64, u64, bool, bytes, choice, ...
	Vars  []string `json:"-"`
	Value []string `json:"value,omitempty"` // filled from a model
	Const string   `json:"const,omitempty"` // for choices
}

type Violation struct {
	Label   string     `json:"label"`
	Kind    string     `json:"kind"` // assert | panic | blocked
	Inputs  []InputRec `json:"inputs"`
	Trace   []int      `json:"trace"`
	Detail  string     `json:"detail,omitempty"`
	Harness string     `json:"harness"`
	Log     []string   `json:"log,omitempty"`
}

type Witness struct {
	Inputs  []InputRec `json:"inputs"`
	Expect  []string   `json:"expect,omitempty"` // values predicted by the engine for verif.Observe calls
	Harness string     `json:"harness"`
	Reach   []string   `json:"reach,omitempty"`
	Outcome string     `json:"outcome"`
	Log     []string   `json:"log,omitempty"`
}

type Path struct {
	eng    *Engine
	sol    *Solver
	prefix []int
	trace  []Decision
	depth  int
	steps  int

	cellSeq    int
	globals    map[*ssa.Global]*Cell
	initDone   map[*ssa.Package]bool
	deferFrame *Frame
	inInit     int
	cloneMap   map[*Cell]*Cell
	cloneMaps  map[*MapObj]*MapObj
	inputs     []InputRec
	observes   []obsRec
	reached    []string
	log        []string
	mapRanges  int
	mapChoice  bool
	funcs      map[*ssa.Function]bool
	choicePts  map[string]bool

	// environment-channel model
	env *envState
	stubs map[string]Value

	// results
	asserts   map[string]*assertStat
	viols     []Violation
	outcome   string
	violated  bool
	curFn     *ssa.Function // innermost function / instruction being executed (diagnostics)
	curIns    ssa.Instruction
	unsupMsg  string
	pcInfeasible bool
	harness   string
	aux       map[string]interface{}
}

type obsRec struct {
	label string
	terms []*Term // scalar leaves
	desc  string
}

type assertStat struct {
	Checked, Held, Violated, Unknown int
}

type Engine struct {
	prog     *ssa.Program
	pkgs     []*ssa.Package
	maxSteps int
	maxLoop  int
	mapOrderChoice bool
	transparent    func(pkgPath string) bool
	solverBin string
	timeoutMs int
	incTimeoutMs int
	portfolio bool
	crossCheck bool
	workers   int
	maxPaths  int
	maxBigBytes int
	wantWitness int
	stopOnViolation bool

	pkgInfo  map[*types.Package]*packages.Package
	cellSeqG int
	tpl      *Path
	tplErr   string
	tplMu    sync.Mutex
	mu       sync.Mutex
	work     [][]int
	active   int
	cond     *sync.Cond
	res      *Result
}

type Result struct {
	Harness   string                 `json:"harness"`
	Paths     int                    `json:"paths"`
	Outcomes  map[string]int         `json:"outcomes"`
	Asserts   map[string]*assertStat `json:"asserts"`
	Reach     map[string]int         `json:"reach"`
	Violations []Violation           `json:"violations"`
	Witnesses []Witness              `json:"witnesses"`
	Unsupported map[string]int       `json:"unsupported"`
	Functions []string               `json:"functions_encoded"`
	ChoicePoints []string            `json:"choice_points"`
	Queries   int                    `json:"queries"`
	Fallbacks int                    `json:"oneshot_fallbacks"`
	Unknowns  int                    `json:"unknown_queries"`
	Disagreements int                `json:"solver_disagreements"`
	CrossChecked int                 `json:"cross_solver_answers"`
	SolverS   float64                `json:"solver_time_s"`
	WallS     float64                `json:"wall_s"`
	Decisions int                    `json:"decisions"`
	Truncated bool                   `json:"truncated"`
	funcs     map[string]bool
	cps       map[string]bool
	sigSeen   map[string]bool
}

func (p *Path) noteFunc(fn *ssa.Function) {
	if !p.funcs[fn] {
		p.funcs[fn] = true
	}
}

func (p *Path) noteChoicePoint(kind string, fn *ssa.Function) {
	p.choicePts[kind+"@"+fn.String()] = true
}

// ---------- decisions ----------

func (p *Path) record(v, n int) { p.trace = append(p.trace, Decision{v, n}) }

func (p *Path) decide(c *Term) bool {
	if c.cst {
		return c.bval
	}
	pos := len(p.trace)
	if pos < len(p.prefix) {
		v := p.prefix[pos]
		p.record(v, 2)
		if v == 1 {
			p.sol.Assert(c)
			return true
		}
		p.sol.Assert(tNot(c))
		return false
	}
	rt := p.sol.Check(c)
	if rt == Unsat {
		// the other side must be feasible because pc is
		p.record(0, 2)
		p.sol.Assert(tNot(c))
		return false
	}
	rf := p.sol.Check(tNot(c))
	if rt == Unknown && rf == Unknown {
		p.undecided("branch feasibility unknown")
	}
	if rf == Unsat {
		p.record(1, 2)
		p.sol.Assert(c)
		return true
	}
	if rt == Unknown {
		// cannot show the true side feasible: explore false, note the gap
		p.noteUnknown("branch")
		p.record(0, 2)
		p.sol.Assert(tNot(c))
		return false
	}
	if rf == Unknown {
		p.noteUnknown("branch")
		p.record(1, 2)
		p.sol.Assert(c)
		return true
	}
	// both feasible: take true now, queue false
	alt := make([]int, pos+1)
	for i, d := range p.trace {
		alt[i] = d.v
	}
	alt[pos] = 0
	p.eng.push(alt)
	p.record(1, 2)
	p.sol.Assert(c)
	return true
}

func (p *Path) choose(n int, label string) int {
	if n <= 1 {
		return 0
	}
	pos := len(p.trace)
	if pos < len(p.prefix) {
		v := p.prefix[pos]
		p.record(v, n)
		return v
	}
	for alt := 1; alt < n; alt++ {
		a := make([]int, pos+1)
		for i, d := range p.trace {
			a[i] = d.v
		}
		a[pos] = alt
		p.eng.push(a)
	}
	p.record(0, n)
	return 0
}

func (p *Path) undecided(msg string) {
	p.unsupMsg = msg
	panic(pathAbort{"unknown"})
}

func (p *Path) noteUnknown(what string) {
	p.aux["unknown:"+what] = true
}

// assume adds a constraint; ends the path if it becomes infeasible.
func (p *Path) assume(c *Term) {
	if c.cst {
		if !c.bval {
			panic(pathAbort{"infeasible"})
		}
		return
	}
	pos := len(p.trace)
	if pos < len(p.prefix) {
		// an assume inside the replayed prefix was feasible before
		p.sol.Assert(c)
		return
	}
	r := p.sol.Check(c)
	if r == Unsat {
		panic(pathAbort{"infeasible"})
	}
	if r == Unknown {
		p.noteUnknown("assume")
	}
	p.sol.Assert(c)
}

func (p *Path) assertProp(c *Term, label string) {
	st := p.asserts[label]
	if st == nil {
		st = &assertStat{}
		p.asserts[label] = st
	}
	st.Checked++
	if c.cst && c.bval {
		st.Held++
		return
	}
	r, model := p.sol.Model(tNot(c))
	switch r {
	case Unsat:
		st.Held++
		return
	case Unknown:
		st.Unknown++
		// continue under the assumption that it holds
		p.sol.Assert(c)
		return
	}
	st.Violated++
	p.viols = append(p.viols, Violation{Label: label, Kind: "assert", Inputs: p.inputsWithModel(model), Trace: p.traceInts(), Harness: p.harness, Log: append([]string{}, p.log...)})
	// the path continues with its condition unchanged, so that later assertions (possibly owned by
	// another property) are still evaluated: one defect must not mask another behind the first
	// failing assertion
	p.violated = true
}

func (p *Path) traceInts() []int {
	out := make([]int, len(p.trace))
	for i, d := range p.trace {
		out[i] = d.v
	}
	return out
}

func (p *Path) inputsWithModel(m map[string]string) []InputRec {
	out := make([]InputRec, len(p.inputs))
	for i, in := range p.inputs {
		r := in
		if in.Const == "" {
			r.Value = make([]string, len(in.Vars))
			for j, v := range in.Vars {
				if val, ok := m[v]; ok {
					r.Value[j] = val
				} else {
					r.Value[j] = "0"
				}
			}
		}
		out[i] = r
	}
	return out
}

// ---------- exploration driver ----------

func (e *Engine) push(prefix []int) {
	e.mu.Lock()
	e.work = append(e.work, prefix)
	e.mu.Unlock()
	e.cond.Signal()
}

func (e *Engine) pop() ([]int, bool) {
	e.mu.Lock()
	defer e.mu.Unlock()
	for {
		if len(e.work) > 0 {
			if e.maxPaths > 0 && e.res.Paths+e.active >= e.maxPaths {
				e.res.Truncated = true
				e.work = nil
				if e.active == 0 {
					e.cond.Broadcast()
					return nil, false
				}
			} else {
				w := e.work[len(e.work)-1]
				e.work = e.work[:len(e.work)-1]
				e.active++
				return w, true
			}
		}
		if e.active == 0 {
			e.cond.Broadcast()
			return nil, false
		}
		e.cond.Wait()
	}
}

func (e *Engine) Explore(harness *ssa.Function) *Result {
	t0 := time.Now()
	e.res = &Result{Harness: harness.Name(), Outcomes: map[string]int{}, Asserts: map[string]*assertStat{}, Reach: map[string]int{},
		Unsupported: map[string]int{}, funcs: map[string]bool{}, cps: map[string]bool{}, sigSeen: map[string]bool{}}
	e.cond = sync.NewCond(&e.mu)
	e.initTemplate(harness)
	e.work = [][]int{{}}
	e.active = 0
	var wg sync.WaitGroup
	for w := 0; w < e.workers; w++ {
		wg.Add(1)
		go func() {
			defer wg.Done()
			sol := NewSolver(e.solverBin, e.timeoutMs, e.incTimeoutMs, e.portfolio, e.crossCheck)
			defer sol.Close()
			for {
				prefix, ok := e.pop()
				if !ok {
					break
				}
				p := e.runPath(harness, prefix, sol)
				e.mu.Lock()
				e.merge(p)
				e.active--
				e.mu.Unlock()
				e.cond.Broadcast()
			}
			e.mu.Lock()
			e.res.Queries += sol.nQueries
			e.res.Fallbacks += sol.nFallback
			e.res.Unknowns += sol.nUnknown
			e.res.Disagreements += sol.nDisagree
			e.res.CrossChecked += sol.nCross
			e.res.SolverS += sol.solveTime.Seconds()
			e.mu.Unlock()
		}()
	}
	wg.Wait()
	for f := range e.res.funcs {
		e.res.Functions = append(e.res.Functions, f)
	}
	sort.Strings(e.res.Functions)
	for f := range e.res.cps {
		e.res.ChoicePoints = append(e.res.ChoicePoints, f)
	}
	sort.Strings(e.res.ChoicePoints)
	e.res.WallS = time.Since(t0).Seconds()
	return e.res
}

func (e *Engine) merge(p *Path) {
	r := e.res
	r.Paths++
	r.Outcomes[p.outcome]++
	r.Decisions += len(p.trace)
	if p.outcome == "unsupported" || p.outcome == "unknown" {
		r.Unsupported[p.unsupMsg]++
	}
	for k, v := range p.asserts {
		st := r.Asserts[k]
		if st == nil {
			st = &assertStat{}
			r.Asserts[k] = st
		}
		st.Checked += v.Checked
		st.Held += v.Held
		st.Violated += v.Violated
		st.Unknown += v.Unknown
	}
	for _, l := range p.reached {
		r.Reach[l]++
	}
	perLabel := map[string]int{}
	for _, v := range r.Violations {
		perLabel[v.Label]++
	}
	// keep the three SHORTEST counterexamples per label (fewest schedule steps, then fewest
	// decisions, then the lexicographically first trace): deterministic whatever the order in
	// which the workers finish, and the simplest history is the one replayed first
	shorter := func(a, b Violation) bool {
		if len(a.Log) != len(b.Log) {
			return len(a.Log) < len(b.Log)
		}
		if len(a.Trace) != len(b.Trace) {
			return len(a.Trace) < len(b.Trace)
		}
		for i := range a.Trace {
			if a.Trace[i] != b.Trace[i] {
				return a.Trace[i] < b.Trace[i]
			}
		}
		return false
	}
	for _, v := range p.viols {
		if perLabel[v.Label] < 3 {
			r.Violations = append(r.Violations, v)
			perLabel[v.Label]++
			continue
		}
		worst := -1
		for i, w := range r.Violations {
			if w.Label == v.Label && (worst < 0 || shorter(r.Violations[worst], w)) {
				worst = i
			}
		}
		if worst >= 0 && shorter(v, r.Violations[worst]) {
			r.Violations[worst] = v
		}
	}
	for f := range p.funcs {
		name := f.String()
		if !r.funcs[name] {
			r.funcs[name] = true
		}
	}
	for c := range p.choicePts {
		r.cps[c] = true
	}
	if w, ok := p.aux["witness"]; ok && len(r.Witnesses) < e.wantWitness {
		r.Witnesses = append(r.Witnesses, w.(Witness))
	}
	for k := range p.aux {
		if strings.HasPrefix(k, "unknown:") {
			r.Unsupported[k]++
		}
	}
}

func (e *Engine) runPath(harness *ssa.Function, prefix []int, sol *Solver) (p *Path) {
	p = &Path{eng: e, sol: sol, prefix: prefix, globals: map[*ssa.Global]*Cell{}, initDone: map[*ssa.Package]bool{},
		funcs: map[*ssa.Function]bool{}, choicePts: map[string]bool{}, asserts: map[string]*assertStat{}, aux: map[string]interface{}{},
		harness: harness.Name()}
	sol.BeginPath()
	defer sol.EndPath()
	defer func() {
		if r := recover(); r != nil {
			switch x := r.(type) {
			case unsupported:
				p.outcome = "unsupported"
				p.unsupMsg = x.msg
				if p.curFn != nil && os.Getenv("SYMGO_WHERE") != "" {
					fmt.Fprintf(os.Stderr, "unsupported: %s @ %s: %v (%s)\n", x.msg, p.curFn, p.curIns, p.eng.prog.Fset.Position(p.curIns.Pos()))
				}
			case pathAbort:
				p.outcome = x.kind
				if x.kind == "done" && p.violated {
					p.outcome = "violated"
				}
				if x.kind == "blocked" {
					p.viols = append(p.viols, Violation{Label: "blocked-forever", Kind: "blocked", Inputs: p.inputsWithModelNow(), Trace: p.traceInts(), Harness: p.harness, Detail: p.unsupMsg, Log: append([]string{}, p.log...)})
				}
			case *goPanic:
				p.outcome = "panic"
				p.unsupMsg = p.describePanic(x)
				if !p.eng.panicOK() {
					p.viols = append(p.viols, Violation{Label: "uncaught-panic", Kind: "panic", Inputs: p.inputsWithModelNow(), Trace: p.traceInts(), Harness: p.harness, Detail: p.unsupMsg, Log: append([]string{}, p.log...)})
				}
			default:
				// an engine-internal failure must never take the whole run down: the path is
				// reported as unsupported (its obligations stay undischarged)
				fmt.Fprintf(os.Stderr, "engine panic on path %v: %v\n%s\n", prefix, r, debug.Stack())
				p.outcome = "unsupported"
				p.unsupMsg = fmt.Sprintf("engine panic: %v", r)
			}
		}
		if p.outcome == "done" && e.wantWitness > 0 {
			p.makeWitness()
		}
	}()
	p.callFunction(harness, nil, nil, nil)
	p.outcome = "done"
	if p.violated {
		p.outcome = "violated" // no witness is drawn from a path on which an assertion failed
	}
	return p
}

func (e *Engine) panicOK() bool { return false }

func (p *Path) inputsWithModelNow() []InputRec {
	r, m := p.sol.Model(nil)
	if r != Sat {
		m = map[string]string{}
	}
	return p.inputsWithModel(m)
}

func (p *Path) describePanic(gp *goPanic) string {
	s := gp.where + ": "
	switch v := gp.val.(type) {
	case IfaceV:
		if ov, ok := v.v.(OpaqueV); ok {
			return s + fmt.Sprintf("%s %v", ov.kind, ov.data)
		}
		if sv, ok := v.v.(StrV); ok {
			if c, ok := strConcrete(sv); ok {
				return s + c
			}
		}
		if v.t != nil {
			return s + v.t.String()
		}
	case StrV:
		if c, ok := strConcrete(v); ok {
			return s + c
		}
	}
	return s + valString(gp.val)
}

func (p *Path) makeWitness() {
	sig := strings.Join(p.reached, ",") + fmt.Sprint(p.traceSig())
	p.eng.mu.Lock()
	seen := p.eng.res.sigSeen[sig]
	n := len(p.eng.res.Witnesses)
	if !seen {
		p.eng.res.sigSeen[sig] = true
	}
	p.eng.mu.Unlock()
	if seen || n >= p.eng.wantWitness {
		return
	}
	var ts []*Term
	for _, o := range p.observes {
		ts = append(ts, o.terms...)
	}
	r, m, vals := p.sol.ModelWith(ts)
	if r != Sat {
		return
	}
	w := Witness{Inputs: p.inputsWithModel(m), Harness: p.harness, Reach: p.reached, Outcome: p.outcome, Log: append([]string{}, p.log...)}
	k := 0
	for _, o := range p.observes {
		w.Expect = append(w.Expect, o.label+"="+strings.Join(vals[k:k+len(o.terms)], ","))
		k += len(o.terms)
	}
	p.aux["witness"] = w
}

func (p *Path) traceSig() []int {
	// branch signature: only the first 24 decisions, enough to diversify
	t := p.traceInts()
	if len(t) > 24 {
		t = t[:24]
	}
	return t
}

// ---------- globals and package init ----------

func (p *Path) globalCell(g *ssa.Global) *Cell {
	if c, ok := p.globals[g]; ok {
		return c
	}
	if tpl := p.eng.tpl; tpl != nil && tpl != p {
		// package initialisation is input-independent: it is executed once in a
		// template path and its heap is cloned lazily into every explored path
		c := func() *Cell {
			p.eng.tplMu.Lock()
			defer p.eng.tplMu.Unlock()
			return p.cloneCell(tpl.globalCell(g))
		}()
		p.globals[g] = c
		return c
	}
	pkg := g.Pkg
	if p.eng.transparent(pkg.Pkg.Path()) {
		p.ensureInit(pkg)
		if c, ok := p.globals[g]; ok {
			return c
		}
		c := p.newCell(zeroValue(deref(g.Type())), deref(g.Type()))
		p.globals[g] = c
		return c
	}
	// opaque package: globals are engine-provided sentinels
	c := p.newCell(p.opaqueGlobal(g), deref(g.Type()))
	p.globals[g] = c
	return c
}

func (p *Path) ensureInit(pkg *ssa.Package) {
	if p.initDone[pkg] {
		return
	}
	p.initDone[pkg] = true
	// allocate all globals zeroed first
	for _, m := range pkg.Members {
		if g, ok := m.(*ssa.Global); ok {
			if _, ok := p.globals[g]; !ok {
				p.globals[g] = p.newCell(zeroValue(deref(g.Type())), deref(g.Type()))
			}
		}
	}
	initFn := pkg.Func("init")
	if initFn == nil {
		return
	}
	saved := p.inInit
	p.inInit++
	defer func() { p.inInit = saved }()
	ensureBuilt(initFn)
	p.noteFunc(initFn)
	fr := &Frame{fn: initFn, env: map[ssa.Value]Value{}}
	p.runFrame(fr)
}

func (p *Path) opaqueGlobal(g *ssa.Global) Value {
	t := deref(g.Type())
	name := g.Pkg.Pkg.Path() + "." + g.Name()
	if v, ok := knownGlobals[name]; ok {
		return v(p)
	}
	if v, ok := p.eng.constGlobal(g); ok {
		return v
	}
	switch u := t.Underlying().(type) {
	case *types.Interface:
		return IfaceV{t: types.NewPointer(t), v: OpaqueV{kind: "sentinel", data: name}}
	case *types.Pointer:
		_ = u
		return PtrV{c: p.newCell(OpaqueV{kind: "sentinelobj", data: name}, nil)}
	}
	p.unsup("global of opaque package: %s (%v)", name, t)
	return nil
}


// ---------- cloning of the template heap ----------

func (p *Path) cloneCell(c *Cell) *Cell {
	if c == nil {
		return nil
	}
	if p.cloneMap == nil {
		p.cloneMap = map[*Cell]*Cell{}
		p.cloneMaps = map[*MapObj]*MapObj{}
	}
	if n, ok := p.cloneMap[c]; ok {
		return n
	}
	n := p.newCell(nil, c.typ)
	p.cloneMap[c] = n
	n.v = p.cloneValue(c.v)
	return n
}

func (p *Path) cloneValue(v Value) Value {
	switch x := v.(type) {
	case StructV:
		var f []Value
		for i, e := range x.f {
			ne := p.cloneValue(e)
			if f == nil && !sameValueObj(ne, e) {
				f = make([]Value, len(x.f))
				copy(f, x.f[:i])
			}
			if f != nil {
				f[i] = ne
			}
		}
		if f == nil {
			return x
		}
		return StructV{f}
	case ArrayV:
		if len(x.e) > 0 {
			if _, scalar := x.e[0].(*Term); scalar {
				return x
			}
		}
		var f []Value
		for i, e := range x.e {
			ne := p.cloneValue(e)
			if f == nil && !sameValueObj(ne, e) {
				f = make([]Value, len(x.e))
				copy(f, x.e[:i])
			}
			if f != nil {
				f[i] = ne
			}
		}
		if f == nil {
			return x
		}
		return ArrayV{f}
	case PtrV:
		if x.c == nil {
			return x
		}
		return PtrV{c: p.cloneCell(x.c), path: x.path}
	case SliceV:
		if x.c == nil {
			return x
		}
		x.c = p.cloneCell(x.c)
		return x
	case MapV:
		if x.m == nil {
			return x
		}
		if n, ok := p.cloneMaps[x.m]; ok {
			return MapV{n}
		}
		p.cellSeq++
		n := &MapObj{id: p.cellSeq, kt: x.m.kt, vt: x.m.vt}
		p.cloneMaps[x.m] = n
		n.entries = make([]MapEntry, len(x.m.entries))
		for i, e := range x.m.entries {
			n.entries[i] = MapEntry{p.cloneValue(e.k), p.cloneValue(e.v)}
		}
		return MapV{n}
	case IfaceV:
		if x.t == nil {
			return x
		}
		return IfaceV{t: x.t, v: p.cloneValue(x.v)}
	case FuncV:
		if len(x.binds) == 0 && x.recv == nil {
			return x
		}
		nb := make([]Value, len(x.binds))
		for i, b := range x.binds {
			nb[i] = p.cloneValue(b)
		}
		return FuncV{fn: x.fn, binds: nb, intr: x.intr, recv: p.cloneValue(x.recv)}
	case TupleV:
		n := make(TupleV, len(x))
		for i, e := range x {
			n[i] = p.cloneValue(e)
		}
		return n
	}
	return v
}

func sameValueObj(a, b Value) bool {
	defer func() { recover() }()
	switch x := a.(type) {
	case StructV:
		y, ok := b.(StructV)
		return ok && len(x.f) == len(y.f) && (len(x.f) == 0 || &x.f[0] == &y.f[0])
	case ArrayV:
		y, ok := b.(ArrayV)
		return ok && len(x.e) == len(y.e) && (len(x.e) == 0 || &x.e[0] == &y.e[0])
	case PtrV:
		y, ok := b.(PtrV)
		return ok && x.c == y.c
	case SliceV:
		y, ok := b.(SliceV)
		return ok && x.c == y.c
	case MapV:
		y, ok := b.(MapV)
		return ok && x.m == y.m
	case IfaceV:
		y, ok := b.(IfaceV)
		return ok && x.t == y.t && sameValueObj(x.v, y.v)
	case FuncV:
		y, ok := b.(FuncV)
		return ok && x.fn == y.fn && len(x.binds) == 0 && len(y.binds) == 0
	case TupleV:
		return false
	}
	return a == b
}


func (e *Engine) initTemplate(harness *ssa.Function) {
	if e.tpl != nil {
		return
	}
	sol := NewSolver(e.solverBin, e.timeoutMs, e.incTimeoutMs, false, false)
	tp := &Path{eng: e, sol: sol, globals: map[*ssa.Global]*Cell{}, initDone: map[*ssa.Package]bool{},
		funcs: map[*ssa.Function]bool{}, choicePts: map[string]bool{}, asserts: map[string]*assertStat{}, aux: map[string]interface{}{},
		harness: "<init>"}
	sol.BeginPath()
	e.tpl = tp
	func() {
		defer func() {
			if r := recover(); r != nil {
				fmt.Fprintf(os.Stderr, "symgo: package initialisation failed in the template: %v\n", r)
				e.tplErr = fmt.Sprint(r)
			}
		}()
		if harness.Pkg != nil {
			tp.ensureInit(harness.Pkg)
		}
	}()
}


// constGlobal evaluates a package-level `var X = <constant expression>` of an opaque
// package from the type-checker's constant information (no init code is run).
func (e *Engine) constGlobal(g *ssa.Global) (Value, bool) {
	pp := e.pkgInfo[g.Pkg.Pkg]
	if pp == nil || pp.TypesInfo == nil {
		return nil, false
	}
	for _, f := range pp.Syntax {
		for _, d := range f.Decls {
			gd, ok := d.(*ast.GenDecl)
			if !ok || gd.Tok != token.VAR {
				continue
			}
			for _, sp := range gd.Specs {
				vs := sp.(*ast.ValueSpec)
				for i, n := range vs.Names {
					if n.Name != g.Name() || i >= len(vs.Values) {
						continue
					}
					tv, ok := pp.TypesInfo.Types[vs.Values[i]]
					if ce, isCall := vs.Values[i].(*ast.CallExpr); isCall && len(ce.Args) == 1 {
						// var re = regexp.MustCompile(<constant>)
						if sel, ok := ce.Fun.(*ast.SelectorExpr); ok && sel.Sel.Name == "MustCompile" {
							if id, ok := sel.X.(*ast.Ident); ok && id.Name == "regexp" {
								if av, ok := pp.TypesInfo.Types[ce.Args[0]]; ok && av.Value != nil && av.Value.Kind() == constant.String {
									re, err := regexp.Compile(constant.StringVal(av.Value))
									if err == nil {
										e.cellSeqG++
										return PtrV{c: &Cell{v: OpaqueV{kind: "regexp", data: re}, id: -e.cellSeqG}}, true
									}
								}
							}
						}
					}
					if !ok || tv.Value == nil {
						return nil, false
					}
					c := ssa.NewConst(tv.Value, deref(g.Type()))
					return (&Path{eng: e}).constValue(c), true
				}
			}
		}
	}
	return nil, false
}
