package main

import (
	"go/types"

	"golang.org/x/tools/go/ssa"
)

// Environment-channel model (DESIGN §2.6): one goroutine is executed; the other
// side of every channel is the environment.

type envState struct {
	stepsLeft int
	stepsSet  bool
	inflight  []*inflightOp
	goLog     []string
}

type inflightOp struct {
	ch   *ChanObj
	fn   FuncV
	args []Value
	done bool
}

func (p *Path) newChan(n int, et types.Type) *ChanObj {
	p.cellSeq++
	return &ChanObj{id: p.cellSeq, cap: n, et: et, envLimit: -1}
}

func (p *Path) chanSend(c ChanV, v Value) {
	ch := c.ch
	if ch == nil {
		p.blocked("send on nil channel")
	}
	if ch.closed {
		p.throwRuntime("send on closed channel")
	}
	ch.sent = append(ch.sent, v)
	if ch.sink {
		return
	}
	if len(ch.buf) < ch.cap {
		ch.buf = append(ch.buf, v)
		return
	}
	if ch.cap == 0 && ch.envRecv {
		return
	}
	p.blocked("send would block forever on channel " + ch.label)
}

func (p *Path) blocked(msg string) {
	p.unsupMsg = msg
	panic(pathAbort{"blocked"})
}

func (p *Path) chanRecv(c ChanV, commaOk bool) Value {
	ch := c.ch
	if ch == nil {
		p.blocked("receive from nil channel")
	}
	var v Value
	ok := true
	switch {
	case len(ch.buf) > 0:
		v = ch.buf[0]
		ch.buf = ch.buf[1:]
	case ch.closed:
		v = zeroValue(ch.et)
		ok = false
	case ch.pending != nil && !ch.pending.done:
		v = p.deliverInflight(ch.pending)
	case ch.envGen != nil && (ch.envLimit < 0 || ch.envCount < ch.envLimit):
		ch.envCount++
		v = p.callValue(ch.envGen, nil, nil, nil)
	default:
		p.blocked("receive would block forever on channel " + ch.label)
	}
	if commaOk {
		return TupleV{v, mkBool(ok)}
	}
	return v
}

func (p *Path) deliverInflight(op *inflightOp) Value {
	op.done = true
	return p.callValue(op.fn, op.args, nil, nil)
}

func (p *Path) doGo(fr *Frame, x *ssa.Go) {
	p.unsup("go statement in %s (no environment model registered)", fr.fn)
}

func (p *Path) selectOp(fr *Frame, x *ssa.Select) Value {
	p.unsup("select in %s", fr.fn)
	return nil
}
