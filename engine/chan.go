package main

import (
	"strings"
	"fmt"
	"go/types"

	"golang.org/x/tools/go/ssa"
)

// Environment-channel model (DESIGN §2.6).  ONE goroutine (the harness / the event loop under
// test) is executed.  Everything else is environment:
//   - a `go f(x)` statement creates a pending TASK; a task runs atomically, to completion, at a
//     scheduler-chosen later point (any select of the main goroutine, or when the main goroutine
//     would otherwise block on a receive); this covers the `go func(){ ch <- fn() }()` pattern of
//     runner.Do / deploymentManager.do: the effects of fn happen at an arbitrary later moment;
//   - channels registered with verif_EnvChan are environment sources (a fresh value from the
//     harness generator whenever the scheduler picks them, up to a limit); verif_EnvSink marks
//     channels the environment always receives from;
//   - every blocking select is a choice point over {ready cases} ∪ {run pending task i}.

type envState struct {
	stepsLeft int
	stepsSet  bool
	tasks     []*task
	inTask    int
	onQuiet   Value
	taskGates []string
	curTask   *task
	parkTasks bool
	anyTaskOrder bool // pending goroutines may complete in any order (default: spawn order)
	seq       int
}

type task struct {
	fn    Value
	args  []Value
	label string
	cc    *ssa.CallCommon
	spawnSeq int
}

type taskParked struct{}

type inflightOp struct{} // kept for ChanObj compatibility

func (p *Path) envst() *envState {
	if p.env == nil {
		p.env = &envState{}
	}
	return p.env
}

func (p *Path) newChan(n int, et types.Type) *ChanObj {
	p.cellSeq++
	return &ChanObj{id: p.cellSeq, cap: n, et: et, envLimit: -1}
}

func (p *Path) blocked(msg string) {
	p.unsupMsg = msg
	panic(pathAbort{"blocked"})
}

func chanRecvReady(ch *ChanObj) bool {
	if ch == nil {
		return false
	}
	if len(ch.buf) > 0 || ch.closed {
		return true
	}
	return ch.envGen != nil && ch.envCount < ch.envLimit
}

func chanSendReady(ch *ChanObj) bool {
	if ch == nil {
		return false
	}
	return ch.closed || ch.sink || len(ch.buf) < ch.cap || ch.envRecv
}

func (p *Path) chanTake(ch *ChanObj) (Value, bool) {
	switch {
	case len(ch.buf) > 0:
		v := ch.buf[0]
		ch.buf = ch.buf[1:]
		if len(ch.gateLog) > 0 && p.envst().inTask == 0 {
			p.log = append(p.log, ch.gateLog...)
			ch.gateLog = nil
		}
		return v, true
	case ch.closed:
		return zeroValue(ch.et), false
	case ch.envGen != nil && ch.envCount < ch.envLimit:
		ch.envCount++
		v := p.callValue(ch.envGen, nil, nil, nil)
		if iv, ok := v.(IfaceV); ok && !types.IsInterface(ch.et) {
			v = iv.v
		}
		return v, true
	}
	p.unsup("chanTake on a channel that is not ready")
	return nil, false
}

func (p *Path) chanPut(ch *ChanObj, v Value) {
	if ch.closed {
		p.throwRuntime("send on closed channel")
	}
	ch.sent = append(ch.sent, v)
	if e := p.envst(); e.inTask > 0 && len(e.taskGates) > 0 {
		ch.gateLog = append(ch.gateLog, e.taskGates...)
		e.taskGates = nil
	}
	if ch.sinkFn != nil {
		arg := v
		if _, isIface := v.(IfaceV); !isIface {
			arg = IfaceV{t: ch.et, v: v}
		}
		p.callValue(ch.sinkFn, []Value{arg}, nil, nil)
	}
	if ch.sink || (ch.envRecv && len(ch.buf) >= ch.cap) {
		return
	}
	ch.buf = append(ch.buf, v)
}

func (p *Path) chanSend(c ChanV, v Value) {
	ch := c.ch
	if ch == nil {
		p.blocked("send on nil channel")
	}
	if ch.closed {
		p.throwRuntime("send on closed channel")
	}
	if !chanSendReady(ch) {
		what := "send would block forever"
		if ch.cap > 0 {
			what = "second send on a full reply channel would block forever"
		}
		p.blocked(fmt.Sprintf("%s (channel %s)", what, ch.label))
	}
	p.chanPut(ch, v)
}

// chanRecv: blocking receive outside a select.  If nothing is available, pending tasks are run
// (scheduler's choice) until the channel has data.
func (p *Path) chanRecv(c ChanV, commaOk bool) Value {
	ch := c.ch
	if ch == nil {
		p.blocked("receive from nil channel")
	}
	for !chanRecvReady(ch) {
		e := p.envst()
		if len(e.tasks) == 0 {
			if e.inTask > 0 {
				p.unsup("a spawned goroutine would block on a receive (not modelled)")
			}
			p.blocked("receive would block forever on channel " + ch.label)
		}
		p.runTask(0)
	}
	v, ok := p.chanTake(ch)
	if commaOk {
		return TupleV{v, mkBool(ok)}
	}
	return v
}

func (p *Path) doGo(fr *Frame, x *ssa.Go) {
	cc := &x.Call
	var fv Value
	var args []Value
	if cc.IsInvoke() {
		recv := p.eval(fr, cc.Value)
		for _, a := range cc.Args {
			args = append(args, p.eval(fr, a))
		}
		fv = FuncV{intr: "invoke:" + cc.Method.Name(), recv: TupleV{recv, cc.Method}}
	} else {
		fv = p.eval(fr, cc.Value)
		for _, a := range cc.Args {
			args = append(args, p.eval(fr, a))
		}
	}
	label := "go"
	if f, ok := fv.(FuncV); ok && f.fn != nil {
		label = f.fn.String()
	}
	e := p.envst()
	e.seq++
	e.tasks = append(e.tasks, &task{fn: fv, args: args, label: label, cc: cc, spawnSeq: e.seq})
}

func (p *Path) runTask(i int) {
	e := p.envst()
	t := e.tasks[i]
	e.tasks = append(append([]*task{}, e.tasks[:i]...), e.tasks[i+1:]...)
	e.inTask++
	saved := e.taskGates
	savedTask := e.curTask
	e.curTask = t
	e.taskGates = nil
	defer func() {
		if r := recover(); r != nil {
			if _, ok := r.(taskParked); !ok {
				e.inTask--
				e.curTask = savedTask
				e.taskGates = saved
				panic(r)
			}
			// the goroutine waits forever in this bounded model: it has no further effect
		}
		e.inTask--
		e.curTask = savedTask
		if len(e.taskGates) > 0 {
			// the task ended without handing a result to any channel: its steps happen now
			p.log = append(p.log, e.taskGates...)
		}
		e.taskGates = saved
	}()
	p.callValue(t.fn, t.args, nil, t.cc)
}

func (p *Path) selectOp(fr *Frame, x *ssa.Select) Value {
	e := p.envst()
	type st struct {
		ch   *ChanObj
		send bool
		val  Value
	}
	states := make([]st, len(x.States))
	for i, s := range x.States {
		cv := p.eval(fr, s.Chan).(ChanV)
		states[i] = st{ch: cv.ch, send: s.Dir == types.SendOnly}
		if states[i].send {
			states[i].val = p.eval(fr, s.Send)
		}
	}
	mkResult := func(idx int, recvVal Value, recvOk bool) Value {
		res := TupleV{mkInt64(int64(idx)), mkBool(recvOk)}
		for i, s := range x.States {
			if s.Dir == types.RecvOnly {
				if i == idx {
					res = append(res, recvVal)
				} else {
					res = append(res, zeroValue(s.Chan.Type().Underlying().(*types.Chan).Elem()))
				}
			}
		}
		return res
	}
	counted := false
	pushedHere := false // a verif_EnvCaller request was queued on a buffered channel during this visit
	// only selects that listen to the environment are steps of the loop under test; incidental
	// selects (lifecycle helpers etc.) neither consume the budget nor define quiescence
	isLoopSelect := false
	for _, s := range states {
		if !s.send && s.ch != nil && s.ch.envGen != nil {
			isLoopSelect = true
		}
	}
	for {
		var ready []int
		for i, s := range states {
			if s.send && chanSendReady(s.ch) || !s.send && chanRecvReady(s.ch) {
				ready = append(ready, i)
			}
		}
		if !x.Blocking {
			if len(ready) == 0 {
				return mkResult(-1, nil, false)
			}
			// a poll that only an environment source could satisfy may also come too early
			pureEnv := e.inTask == 0
			for _, i := range ready {
				ch := states[i].ch
				if states[i].send || len(ch.buf) > 0 || ch.closed || ch.envGen == nil {
					pureEnv = false
				}
			}
			if pureEnv && p.choose(2, "poll") == 1 {
				return mkResult(-1, nil, false)
			}
		} else if e.inTask == 0 && e.stepsSet && !counted && isLoopSelect {
			counted = true
			e.stepsLeft--
			if e.stepsLeft < 0 {
				// budget exhausted: only final sources may fire
				var fin []int
				for _, i := range ready {
					if !states[i].send && states[i].ch.final {
						fin = append(fin, i)
					}
				}
				if len(fin) == 0 {
					p.quiescent("step budget exhausted")
				}
				ready = fin
				idx := ready[p.choose(len(ready), "select")]
				e.stepsSet = false // shutdown has been delivered: the budget has done its job
				v, ok := p.chanTake(states[idx].ch)
				return mkResult(idx, v, ok)
			}
		}
		// pending goroutines complete in spawn order (FIFO): at most the oldest one is offered
		ntasks := 0
		if e.inTask == 0 && len(e.tasks) > 0 {
			ntasks = 1
			if e.anyTaskOrder {
				ntasks = len(e.tasks) // any pending goroutine may complete next
			}
		}
		// the environment may also stay silent forever: if only shutdown could still happen and no
		// goroutine is pending, "idle" is one more alternative (the harness's liveness oracle runs)
		idleOpt := 0
		if isLoopSelect && ntasks == 0 && e.onQuiet != nil && e.inTask == 0 {
			onlyEnv := true
			for _, i := range ready {
				ch := states[i].ch
				if states[i].send || len(ch.buf) > 0 || ch.closed || ch.envGen == nil {
					onlyEnv = false // something internal is ready: the loop cannot be idle here
				}
			}
			if onlyEnv {
				idleOpt = 1
			}
		}
		if len(ready)+ntasks == 0 {
			if e.inTask > 0 {
				if e.parkTasks {
					panic(taskParked{})
				}
				p.unsup("a spawned goroutine would block in select (not modelled)")
			}
			p.quiescent("nothing can happen any more")
		}
		// a caller of the component (verif_EnvCaller) sending on a BUFFERED channel returns as soon
		// as the value is queued: the send is an event of its own, the receive happens later
		var pushable []*ChanObj
		if pushedHere {
			// the caller's request was queued while the loop was not looking (busy, or parked and
			// then woken by it): the loop cannot now wait for something that has not happened yet
			ntasks, idleOpt = 0, 0
		}
		if e.inTask == 0 {
			for _, s := range states {
				if ch := s.ch; !s.send && ch != nil && ch.envPush && ch.cap > 0 && ch.envGen != nil && ch.envCount < ch.envLimit && len(ch.buf) < ch.cap {
					pushable = append(pushable, ch)
				}
			}
		}
		c := p.choose(len(ready)+ntasks+idleOpt+len(pushable), "select")
		if c >= len(ready)+ntasks+idleOpt {
			ch := pushable[c-len(ready)-ntasks-idleOpt]
			ch.envCount++
			v := p.callValue(ch.envGen, nil, nil, nil)
			if iv, ok := v.(IfaceV); ok && !types.IsInterface(ch.et) {
				v = iv.v
			}
			ch.buf = append(ch.buf, v)
			p.log = append(p.log, "queued:"+ch.label)
			pushedHere = true
			continue
		}
		if c >= len(ready)+ntasks {
			p.quiescent("environment stays silent")
		}
		if c >= len(ready) {
			p.runTask(c - len(ready))
			continue // re-evaluate readiness with the task's effects
		}
		idx := ready[c]
		if states[idx].send {
			p.chanPut(states[idx].ch, states[idx].val)
			return mkResult(idx, nil, false)
		}
		if states[idx].ch.final {
			e.stepsSet = false
		}
		v, ok := p.chanTake(states[idx].ch)
		return mkResult(idx, v, ok)
	}
}

// quiescent: the main goroutine waits and nothing will ever wake it.  For an event loop this is
// the normal idle state; the harness's quiescence callback (liveness oracle) runs, then the path ends.
func (p *Path) quiescent(why string) {
	e := p.envst()
	if e.onQuiet != nil {
		cb := e.onQuiet
		e.onQuiet = nil
		e.inTask++ // selects inside the callback must not recurse into scheduling
		p.callValue(cb, nil, nil, nil)
		e.inTask--
		panic(pathAbort{"done"})
	}
	p.unsupMsg = why
	panic(pathAbort{"blocked"})
}

func init() {
	reg("verif_Steps", func(p *Path, fn *ssa.Function, a []Value) Value {
		e := p.envst()
		e.stepsLeft = p.concreteInt(a[0], "verif_Steps")
		e.stepsSet = true
		return nil
	})
	reg("verif_OnQuiescent", func(p *Path, fn *ssa.Function, a []Value) Value {
		p.envst().onQuiet = a[0]
		return nil
	})
	envChan := func(final bool) Intrinsic {
		return func(p *Path, fn *ssa.Function, a []Value) Value {
			iv := a[0].(IfaceV)
			cv, ok := iv.v.(ChanV)
			if !ok || cv.ch == nil {
				p.unsup("verif_EnvChan on %T", iv.v)
			}
			cv.ch.label = p.strArg(a[1])
			cv.ch.envLimit = p.concreteInt(a[2], "limit")
			cv.ch.envGen = a[3]
			cv.ch.final = final
			return nil
		}
	}
	reg("verif_EnvChan", envChan(false))
	reg("verif_EnvFinal", envChan(true))
	reg("verif_EnvSink", func(p *Path, fn *ssa.Function, a []Value) Value {
		cv := a[0].(IfaceV).v.(ChanV)
		cv.ch.sink = true
		cv.ch.label = p.strArg(a[1])
		return nil
	})
	reg("verif_Gate", func(p *Path, fn *ssa.Function, a []Value) Value {
		name := p.strArg(a[0])
		n := p.concreteInt(a[1], "verif_Gate n")
		o := p.choose(n, "gate:"+name)
		entry := fmt.Sprintf("op:%s:%d", name, o)
		if e := p.envst(); e.inTask > 0 {
			// inside a goroutine task: the step is logged when the main goroutine receives the
			// task's result, which is the moment a native replay has to let the operation finish
			e.taskGates = append(e.taskGates, entry)
		} else {
			p.log = append(p.log, entry)
		}
		return mkInt64(int64(o))
	})
	reg("verif_Pick", func(p *Path, fn *ssa.Function, a []Value) Value {
		label := p.strArg(a[0])
		n := p.concreteInt(a[1], "verif_Pick n")
		o := p.choose(n, "pick:"+label)
		p.log = append(p.log, fmt.Sprintf("%s:%d", label, o))
		return mkInt64(int64(o))
	})
	reg("verif_StubFunc", func(p *Path, fn *ssa.Function, a []Value) Value {
		if p.stubs == nil {
			p.stubs = map[string]Value{}
		}
		p.stubs[p.strArg(a[0])] = a[1].(IfaceV).v
		return nil
	})
	reg("verif_Clock", func(p *Path, fn *ssa.Function, a []Value) Value {
		e := p.envst()
		e.seq++
		return mkInt64(int64(e.seq))
	})
	reg("verif_StartSeq", func(p *Path, fn *ssa.Function, a []Value) Value {
		e := p.envst()
		if e.inTask > 0 && e.curTask != nil {
			return mkInt64(int64(e.curTask.spawnSeq))
		}
		e.seq++
		return mkInt64(int64(e.seq))
	})
	reg("verif_TasksMatching", func(p *Path, fn *ssa.Function, a []Value) Value {
		sub := p.strArg(a[0])
		n := 0
		for _, t := range p.envst().tasks {
			if strings.Contains(t.label, sub) {
				n++
			}
		}
		return mkInt64(int64(n))
	})
	reg("verif_EnvSinkFn", func(p *Path, fn *ssa.Function, a []Value) Value {
		cv := a[0].(IfaceV).v.(ChanV)
		cv.ch.sink = true
		cv.ch.label = p.strArg(a[1])
		cv.ch.sinkFn = a[2]
		return nil
	})
	reg("verif_EnvLimit", func(p *Path, fn *ssa.Function, a []Value) Value {
		cv := a[0].(IfaceV).v.(ChanV)
		cv.ch.envLimit = cv.ch.envCount + p.concreteInt(a[1], "limit")
		return nil
	})
	reg("verif_AnyTaskOrder", func(p *Path, fn *ssa.Function, a []Value) Value {
		p.envst().anyTaskOrder = a[0].(*Term).bval
		return nil
	})
	reg("verif_ParkBlockedTasks", func(p *Path, fn *ssa.Function, a []Value) Value {
		p.envst().parkTasks = a[0].(*Term).bval
		return nil
	})
	reg("verif_ChanLog", func(p *Path, fn *ssa.Function, a []Value) Value {
		// number of values ever sent on the channel
		cv := a[0].(IfaceV).v.(ChanV)
		if cv.ch == nil {
			return mkInt64(0)
		}
		return mkInt64(int64(len(cv.ch.sent)))
	})
	reg("verif_EnvCaller", func(p *Path, fn *ssa.Function, a []Value) Value {
		cv, ok := a[0].(IfaceV).v.(ChanV)
		if !ok || cv.ch == nil {
			p.unsup("verif_EnvCaller on %T", a[0].(IfaceV).v)
		}
		cv.ch.envPush = true
		return nil
	})
	reg("verif_DropTasks", func(p *Path, fn *ssa.Function, a []Value) Value {
		p.envst().tasks = nil
		return nil
	})
	reg("verif_PendingTasks", func(p *Path, fn *ssa.Function, a []Value) Value {
		return mkInt64(int64(len(p.envst().tasks)))
	})
	// time: timers are environment sources that may fire at any later select
	reg("time.After", func(p *Path, fn *ssa.Function, a []Value) Value {
		ch := p.newChan(1, fn.Signature.Results().At(0).Type().Underlying().(*types.Chan).Elem())
		ch.label = "timer"
		ch.envLimit = 1
		ch.envGen = FuncV{intr: "zerotime", recv: OpaqueV{kind: "type", data: ch.et}}
		return ChanV{ch}
	})
	boundIntrinsics["zerotime"] = func(p *Path, recv Value, a []Value) Value {
		p.log = append(p.log, "timer")
		return zeroValue(recv.(OpaqueV).data.(types.Type))
	}
	reg("time.Now", func(p *Path, fn *ssa.Function, a []Value) Value {
		z := zeroValue(fn.Signature.Results().At(0).Type())
		// with a harness clock (verif_SetEpoch) the epoch is carried in Time.ext
		if ep, ok := p.aux["epoch"].(int); ok && ep > 0 {
			sv := z.(StructV)
			f := append([]Value(nil), sv.f...)
			f[1] = mkInt64(int64(ep))
			sv.f = f
			return sv
		}
		return z
	})
	reg("time.Since", func(p *Path, fn *ssa.Function, a []Value) Value { return mkInt64(0) })
	reg("(time.Time).Sub", func(p *Path, fn *ssa.Function, a []Value) Value { return mkInt64(0) })
	reg("time.NewTimer", func(p *Path, fn *ssa.Function, a []Value) Value {
		tt := deref(fn.Signature.Results().At(0).Type())
		st := tt.Underlying().(*types.Struct)
		tv := zeroValue(tt).(StructV)
		f := append([]Value{}, tv.f...)
		for i := 0; i < st.NumFields(); i++ {
			if st.Field(i).Name() == "C" {
				ch := p.newChan(1, st.Field(i).Type().Underlying().(*types.Chan).Elem())
				ch.label = "timer"
				ch.envLimit = 1
				ch.envGen = FuncV{intr: "zerotime", recv: OpaqueV{kind: "type", data: ch.et}}
				f[i] = ChanV{ch}
			}
		}
		return PtrV{c: p.newCell(StructV{f}, tt)}
	})
	timerChan := func(p *Path, t Value) *ChanObj {
		sv := t.(PtrV).load().(StructV)
		for _, f := range sv.f {
			if cv, ok := f.(ChanV); ok {
				return cv.ch
			}
		}
		p.unsup("timer without channel")
		return nil
	}
	reg("(*time.Timer).Stop", func(p *Path, fn *ssa.Function, a []Value) Value {
		ch := timerChan(p, a[0])
		active := ch.envCount < ch.envLimit
		ch.envLimit = ch.envCount
		return mkBool(active)
	})
	reg("(*time.Timer).Reset", func(p *Path, fn *ssa.Function, a []Value) Value {
		ch := timerChan(p, a[0])
		active := ch.envCount < ch.envLimit
		ch.envLimit = ch.envCount + 1
		return mkBool(active)
	})
	// context: cancellation is not observed by the stubs
	reg("context.Background", func(p *Path, fn *ssa.Function, a []Value) Value {
		return IfaceV{t: opaqueType, v: OpaqueV{kind: "plainctx", data: "background"}}
	})
	reg("context.TODO", intrinsics["context.Background"])
	reg("context.WithCancel", func(p *Path, fn *ssa.Function, a []Value) Value {
		return TupleV{a[0], FuncV{intr: "noop"}}
	})
	boundIntrinsics["noop"] = func(p *Path, recv Value, a []Value) Value { return nil }
	// verif_CancelCtx: a context whose cancellation IS observable (Done is a real channel closed by
	// cancel; Err is non-nil afterwards) - for harnesses whose subject is the reaction to cancellation
	reg("verif_CancelCtx", func(p *Path, fn *ssa.Function, a []Value) Value {
		ch := p.newChan(0, types.NewStruct(nil, nil))
		ctx := IfaceV{t: opaqueType, v: OpaqueV{kind: "cancelctx", data: ch}}
		return TupleV{ctx, FuncV{intr: "cancelctx", recv: ChanV{ch: ch}}}
	})
	boundIntrinsics["cancelctx"] = func(p *Path, recv Value, a []Value) Value {
		recv.(ChanV).ch.closed = true
		return nil
	}
	opaqueMethods["cancelctx.Done"] = func(p *Path, ov OpaqueV, a []Value) Value { return ChanV{ch: ov.data.(*ChanObj)} }
	opaqueMethods["cancelctx.Err"] = func(p *Path, ov OpaqueV, a []Value) Value {
		if ov.data.(*ChanObj).closed {
			return p.newError("context canceled", nil)
		}
		return IfaceV{}
	}
	opaqueMethods["cancelctx.Value"] = func(p *Path, ov OpaqueV, a []Value) Value { return IfaceV{} }
	opaqueMethods["plainctx.Done"] = func(p *Path, ov OpaqueV, a []Value) Value { return ChanV{} }
	opaqueMethods["plainctx.Err"] = func(p *Path, ov OpaqueV, a []Value) Value { return IfaceV{} }
	opaqueMethods["plainctx.Value"] = func(p *Path, ov OpaqueV, a []Value) Value { return IfaceV{} }
}
