package main

import (
	"go/types"

	"golang.org/x/tools/go/ssa"
)

// Certificate model: a PEM certificate is an opaque token carrying (CN, serial[, more]).
type certTok struct {
	kind   string // "cert" | "pub"
	cn     Value  // StrV
	serial *Term
	fields map[string]Value
	// authentication model (C09)
	issuerCN   Value
	key        int   // identity of the certified public key
	signer     int   // identity of the key that signed the certificate
	validNow   *Term // within its validity window at verification time
	validAt    map[int]*Term // per clock epoch (verif_SetEpoch); overrides validNow when present
	clientAuth *Term // carries the client-auth extended key usage
	der        bool  // raw DER (not PEM-wrapped)
	isCA       bool
}

type certPool struct{ roots []*certTok }

var certTagType = types.NewNamed(types.NewTypeName(0, nil, "symgo.cert", nil), types.NewStruct(nil, nil), nil)

func certSlice(t *certTok) Value {
	return SliceV{blob: &BlobObj{val: OpaqueV{kind: "certtok", data: t}, typ: certTagType}, len: 1, cap: 1}
}

func tokOf(v Value) *certTok {
	s, ok := v.(SliceV)
	if !ok || s.blob == nil {
		return nil
	}
	ov, ok := s.blob.val.(OpaqueV)
	if !ok || ov.kind != "certtok" {
		return nil
	}
	return ov.data.(*certTok)
}

func (p *Path) namedType(pkgPath, name string) types.Type {
	pkg := p.eng.prog.ImportedPackage(pkgPath)
	if pkg == nil {
		p.unsup("package %s not loaded", pkgPath)
	}
	m := pkg.Type(name)
	if m == nil {
		p.unsup("type %s.%s not found", pkgPath, name)
	}
	return m.Type()
}

func structField(t types.Type, name string) int {
	st := t.Underlying().(*types.Struct)
	for i := 0; i < st.NumFields(); i++ {
		if st.Field(i).Name() == name {
			return i
		}
	}
	panic(unsupported{"no field " + name})
}

func init() {
	reg("verif_CertPEM", func(p *Path, fn *ssa.Function, a []Value) Value {
		return certSlice(&certTok{kind: "cert", cn: a[0], serial: p.big(a[1])})
	})
	reg("verif_CertDER", func(p *Path, fn *ssa.Function, a []Value) Value {
		return certSlice(&certTok{kind: "cert", der: true, cn: a[0], issuerCN: a[1], serial: p.big(a[2]),
			key: p.concreteInt(a[3], "key"), signer: p.concreteInt(a[4], "signer"), validNow: a[5].(*Term), clientAuth: a[6].(*Term)})
	})
	// verif_CertDERT: like verif_CertDER with a validity flag per clock epoch (1 = when the TLS
	// configuration is built, 2 = when the handshake happens)
	reg("verif_CertDERT", func(p *Path, fn *ssa.Function, a []Value) Value {
		return certSlice(&certTok{kind: "cert", der: true, cn: a[0], issuerCN: a[1], serial: p.big(a[2]),
			key: p.concreteInt(a[3], "key"), signer: p.concreteInt(a[4], "signer"),
			validAt: map[int]*Term{1: a[5].(*Term), 2: a[6].(*Term)}, clientAuth: a[7].(*Term)})
	})
	reg("verif_SetEpoch", func(p *Path, fn *ssa.Function, a []Value) Value {
		p.aux["epoch"] = p.concreteInt(a[0], "epoch")
		return nil
	})
	reg("verif_DERToPEM", func(p *Path, fn *ssa.Function, a []Value) Value { return a[0] })
	reg("crypto/x509.NewCertPool", func(p *Path, fn *ssa.Function, a []Value) Value {
		return PtrV{c: p.newCell(OpaqueV{kind: "certpool", data: &certPool{}}, nil)}
	})
	certOf := func(p *Path, v Value) *certTok {
		ct := p.namedType("crypto/x509", "Certificate")
		pv := v.(PtrV)
		if pv.c == nil {
			p.throwRuntime("nil *x509.Certificate")
		}
		raw := pv.load().(StructV).f[structField(ct, "Raw")]
		tok := tokOf(raw)
		if tok == nil {
			p.unsup("x509.Certificate that did not come from the certificate model")
		}
		return tok
	}
	reg("(*crypto/x509.CertPool).AddCert", func(p *Path, fn *ssa.Function, a []Value) Value {
		pool := a[0].(PtrV).load().(OpaqueV).data.(*certPool)
		pool.roots = append(pool.roots, certOf(p, a[1]))
		return nil
	})
	// Verify contract: the certificate chains to a root iff it IS a root or a CA root's key signed it;
	// it must be inside its validity window and carry every requested extended key usage
	reg("(*crypto/x509.Certificate).Verify", func(p *Path, fn *ssa.Function, a []Value) Value {
		tok := certOf(p, a[0])
		ot := p.namedType("crypto/x509", "VerifyOptions")
		opts := a[1].(StructV)
		roots := opts.f[structField(ot, "Roots")].(PtrV)
		usages := opts.f[structField(ot, "KeyUsages")].(SliceV)
		fail := func(msg string) Value { return TupleV{SliceV{isNil: true}, p.newError("x509: "+msg, nil)} }
		if roots.c == nil {
			return fail("certificate signed by unknown authority (system roots are not modelled)")
		}
		pool := roots.load().(OpaqueV).data.(*certPool)
		chained := false
		for _, r := range pool.roots {
			// Go's verifier accepts a certificate that IS one of the roots (identical bytes); a root
			// can vouch for another certificate only if it is a CA, which account certificates are not
			if r == tok || (r.isCA && r.key == tok.signer) {
				chained = true
			}
		}
		if !chained {
			return fail("certificate signed by unknown authority")
		}
		if tok.validAt != nil {
			// the instant the verifier uses: VerifyOptions.CurrentTime, or the clock when that is zero
			ct := opts.f[structField(ot, "CurrentTime")].(StructV)
			ep := 0
			if e, ok := ct.f[1].(*Term); ok && e.cst {
				ep = int(e.ival.Int64())
			}
			if ep == 0 {
				ep, _ = p.aux["epoch"].(int)
			}
			v := tok.validAt[ep]
			if v == nil {
				p.unsup("certificate validity asked at clock epoch %d", ep)
			}
			if !p.decide(v) {
				return fail("certificate has expired or is not yet valid")
			}
		} else if tok.validNow != nil && !p.decide(tok.validNow) {
			return fail("certificate has expired or is not yet valid")
		}
		wantClient := false
		for _, u := range usages.elems() {
			if t := u.(*Term); t.cst && t.ival.Int64() == 2 { // x509.ExtKeyUsageClientAuth
				wantClient = true
			}
		}
		if wantClient && tok.clientAuth != nil && !p.decide(tok.clientAuth) {
			return fail("certificate specifies an incompatible key usage")
		}
		return TupleV{SliceV{isNil: true}, IfaceV{}}
	})
	reg("verif_PubPEM", func(p *Path, fn *ssa.Function, a []Value) Value { return certSlice(&certTok{kind: "pub"}) })
	reg("encoding/pem.Decode", func(p *Path, fn *ssa.Function, a []Value) Value {
		tok := tokOf(a[0])
		if tok == nil {
			// anything that is not one of our tokens is not PEM
			return TupleV{PtrV{}, a[0]}
		}
		bt := p.namedType("encoding/pem", "Block")
		blk := zeroValue(bt).(StructV)
		f := append([]Value{}, blk.f...)
		ty := "CERTIFICATE"
		if tok.kind == "pub" {
			ty = "EC PUBLIC KEY"
		}
		f[structField(bt, "Type")] = StrV{s: ty}
		f[structField(bt, "Bytes")] = a[0]
		return TupleV{PtrV{c: p.newCell(StructV{f}, bt)}, SliceV{isNil: true}}
	})
	reg("crypto/x509.ParseCertificate", func(p *Path, fn *ssa.Function, a []Value) Value {
		tok := tokOf(a[0])
		if tok == nil || tok.kind != "cert" {
			return TupleV{PtrV{}, p.newError("x509: malformed certificate", nil)}
		}
		ct := p.namedType("crypto/x509", "Certificate")
		cv := zeroValue(ct).(StructV)
		f := append([]Value{}, cv.f...)
		f[structField(ct, "SerialNumber")] = PtrV{c: p.newCell(BigV{t: tok.serial}, nil)}
		nt := p.namedType("crypto/x509/pkix", "Name")
		subj := zeroValue(nt).(StructV)
		sf := append([]Value{}, subj.f...)
		sf[structField(nt, "CommonName")] = tok.cn
		f[structField(ct, "Subject")] = StructV{sf}
		isf := append([]Value{}, subj.f...)
		if tok.issuerCN != nil {
			isf[structField(nt, "CommonName")] = tok.issuerCN
		} else {
			isf[structField(nt, "CommonName")] = tok.cn
		}
		f[structField(ct, "Issuer")] = StructV{isf}
		f[structField(ct, "Raw")] = a[0]
		for k, v := range tok.fields {
			f[structField(ct, k)] = v
		}
		return TupleV{PtrV{c: p.newCell(StructV{f}, ct)}, IfaceV{}}
	})
}
