package main

import (
	"go/types"

	"golang.org/x/tools/go/ssa"
)

// Certificate model: a PEM certificate is an opaque token carrying (CN, serial[, more]).
type certTok struct {
	kind   string // "cert" | "pub"
	cn     Value  // StrV
	serial *Term
	fields map[string]Value
}

var certTagType = types.NewNamed(types.NewTypeName(0, nil, "symgo.cert", nil), types.NewStruct(nil, nil), nil)

func certSlice(t *certTok) Value {
	return SliceV{blob: &BlobObj{val: OpaqueV{kind: "certtok", data: t}, typ: certTagType}, len: 1, cap: 1}
}

func tokOf(v Value) *certTok {
	s, ok := v.(SliceV)
	if !ok || s.blob == nil {
		return nil
	}
	ov, ok := s.blob.val.(OpaqueV)
	if !ok || ov.kind != "certtok" {
		return nil
	}
	return ov.data.(*certTok)
}

func (p *Path) namedType(pkgPath, name string) types.Type {
	pkg := p.eng.prog.ImportedPackage(pkgPath)
	if pkg == nil {
		p.unsup("package %s not loaded", pkgPath)
	}
	m := pkg.Type(name)
	if m == nil {
		p.unsup("type %s.%s not found", pkgPath, name)
	}
	return m.Type()
}

func structField(t types.Type, name string) int {
	st := t.Underlying().(*types.Struct)
	for i := 0; i < st.NumFields(); i++ {
		if st.Field(i).Name() == name {
			return i
		}
	}
	panic(unsupported{"no field " + name})
}

func init() {
	reg("verif_CertPEM", func(p *Path, fn *ssa.Function, a []Value) Value {
		return certSlice(&certTok{kind: "cert", cn: a[0], serial: p.big(a[1])})
	})
	reg("verif_PubPEM", func(p *Path, fn *ssa.Function, a []Value) Value { return certSlice(&certTok{kind: "pub"}) })
	reg("encoding/pem.Decode", func(p *Path, fn *ssa.Function, a []Value) Value {
		tok := tokOf(a[0])
		if tok == nil {
			// anything that is not one of our tokens is not PEM
			return TupleV{PtrV{}, a[0]}
		}
		bt := p.namedType("encoding/pem", "Block")
		blk := zeroValue(bt).(StructV)
		f := append([]Value{}, blk.f...)
		ty := "CERTIFICATE"
		if tok.kind == "pub" {
			ty = "EC PUBLIC KEY"
		}
		f[structField(bt, "Type")] = StrV{s: ty}
		f[structField(bt, "Bytes")] = a[0]
		return TupleV{PtrV{c: p.newCell(StructV{f}, bt)}, SliceV{isNil: true}}
	})
	reg("crypto/x509.ParseCertificate", func(p *Path, fn *ssa.Function, a []Value) Value {
		tok := tokOf(a[0])
		if tok == nil || tok.kind != "cert" {
			return TupleV{PtrV{}, p.newError("x509: malformed certificate", nil)}
		}
		ct := p.namedType("crypto/x509", "Certificate")
		cv := zeroValue(ct).(StructV)
		f := append([]Value{}, cv.f...)
		f[structField(ct, "SerialNumber")] = PtrV{c: p.newCell(BigV{t: tok.serial}, nil)}
		nt := p.namedType("crypto/x509/pkix", "Name")
		subj := zeroValue(nt).(StructV)
		sf := append([]Value{}, subj.f...)
		sf[structField(nt, "CommonName")] = tok.cn
		f[structField(ct, "Subject")] = StructV{sf}
		f[structField(ct, "Issuer")] = StructV{sf}
		f[structField(ct, "Raw")] = a[0]
		for k, v := range tok.fields {
			f[structField(ct, k)] = v
		}
		return TupleV{PtrV{c: p.newCell(StructV{f}, ct)}, IfaceV{}}
	})
}
