package main

import (
	"go/token"
)

func (p *Path) floatBin(op token.Token, a, b *Term) Value {
	if a.kind != SFP || b.kind != SFP {
		p.unsup("float binop with non-float operand")
	}
	switch op {
	case token.ADD:
		return mkApp(SFP, 0, "fp.add RNE", a, b)
	case token.SUB:
		return mkApp(SFP, 0, "fp.sub RNE", a, b)
	case token.MUL:
		return mkApp(SFP, 0, "fp.mul RNE", a, b)
	case token.QUO:
		return mkApp(SFP, 0, "fp.div RNE", a, b)
	case token.EQL:
		return mkApp(SBool, 0, "fp.eq", a, b)
	case token.NEQ:
		return tNot(mkApp(SBool, 0, "fp.eq", a, b))
	case token.LSS:
		return mkApp(SBool, 0, "fp.lt", a, b)
	case token.LEQ:
		return mkApp(SBool, 0, "fp.leq", a, b)
	case token.GTR:
		return mkApp(SBool, 0, "fp.gt", a, b)
	case token.GEQ:
		return mkApp(SBool, 0, "fp.geq", a, b)
	}
	p.unsup("float binop %v", op)
	return nil
}
