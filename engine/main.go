package main

import (
	"go/types"
	"runtime/debug"
	"encoding/json"
	"flag"
	"fmt"
	"os"
	"runtime"
	"strings"
	"time"

	"golang.org/x/tools/go/packages"
	"golang.org/x/tools/go/ssa"
	"golang.org/x/tools/go/ssa/ssautil"
)

func fatal(format string, a ...interface{}) {
	fmt.Fprintf(os.Stderr, "symgo: "+format+"\n", a...)
	os.Exit(2)
}

type multiFlag []string

func (m *multiFlag) String() string     { return strings.Join(*m, ",") }
func (m *multiFlag) Set(s string) error { *m = append(*m, s); return nil }

func main() {
	var overlays, harnesses, transp multiFlag
	dir := flag.String("dir", "/repo", "module directory")
	pkgPat := flag.String("pkg", "", "package pattern (relative to dir)")
	out := flag.String("out", "", "result JSON file")
	workers := flag.Int("workers", runtime.NumCPU(), "parallel workers")
	timeout := flag.Int("timeout", 20000, "per-query solver timeout (ms)")
	incTimeout := flag.Int("inctimeout", 300, "timeout of the incremental solver before the one-shot fallback (ms)")
	portfolio := flag.Bool("portfolio", true, "race z3-new, z3 and cvc5 on one-shot queries")
	cross := flag.Bool("crosscheck", false, "wait for all portfolio solvers and compare verdicts")
	solver := flag.String("solver", "z3-new", "solver binary")
	witness := flag.Int("witness", 0, "number of passing-path witnesses to extract per harness")
	maxPaths := flag.Int("maxpaths", 0, "stop after this many paths (0 = no limit); result marked truncated")
	maxSteps := flag.Int("maxsteps", 2000000, "max SSA blocks per path")
	maxLoop := flag.Int("maxloop", 256, "unwinding bound per loop head per frame")
	maxBig := flag.Int("maxbigbytes", 4, "max byte length when splitting big.Int.Bytes()")
	tests := flag.Bool("tests", false, "load test variants too")
	flag.Var(&overlays, "overlay", "virtual=real overlay file mapping (repeatable)")
	flag.Var(&harnesses, "harness", "harness function name (repeatable)")
	flag.Var(&transp, "transparent", "extra package path prefix whose init/globals are executed (repeatable)")
	flag.Parse()
	debug.SetGCPercent(800)
	if *pkgPat == "" || len(harnesses) == 0 {
		fatal("need -pkg and -harness")
	}
	t0 := time.Now()
	ov := map[string][]byte{}
	for _, o := range overlays {
		kv := strings.SplitN(o, "=", 2)
		if len(kv) != 2 {
			fatal("bad overlay %q", o)
		}
		b, err := os.ReadFile(kv[1])
		if err != nil {
			fatal("overlay: %v", err)
		}
		ov[kv[0]] = b
	}
	cfg := &packages.Config{Mode: packages.LoadAllSyntax, Dir: *dir, Overlay: ov, Tests: *tests,
		Env: append(os.Environ(), "GOFLAGS=-mod=mod", "GOPROXY=off", "GOSUMDB=off", "GOTOOLCHAIN=local")}
	pkgs, err := packages.Load(cfg, *pkgPat)
	if err != nil {
		fatal("load: %v", err)
	}
	nerr := 0
	packages.Visit(pkgs, nil, func(p *packages.Package) {
		for _, e := range p.Errors {
			if nerr < 20 {
				fmt.Fprintln(os.Stderr, "load error:", e)
			}
			nerr++
		}
	})
	if nerr > 0 {
		fatal("%d package errors (does /repo compile?)", nerr)
	}
	prog, spkgs := ssautil.AllPackages(pkgs, ssa.InstantiateGenerics)
	var target *ssa.Package
	for _, sp := range spkgs {
		if sp != nil {
			target = sp
		}
	}
	if target == nil {
		fatal("no SSA package")
	}
	target.Build()
	loadS := time.Since(t0).Seconds()

	transparent := func(path string) bool {
		if strings.HasPrefix(path, "github.com/ovrclk/akash") {
			return true
		}
		for _, t := range transp {
			if path == t || strings.HasPrefix(path, t+"/") {
				return true
			}
		}
		return defaultTransparent[path]
	}

	pkgInfo := map[*types.Package]*packages.Package{}
	packages.Visit(pkgs, nil, func(p *packages.Package) {
		if p.Types != nil {
			pkgInfo[p.Types] = p
		}
	})
	var results []*Result
	var eng *Engine
	for _, h := range harnesses {
		fn := target.Func(h)
		if fn == nil {
			fatal("harness %s not found in %s", h, target.Pkg.Path())
		}
		if eng == nil {
			eng = &Engine{prog: prog, pkgInfo: pkgInfo, maxSteps: *maxSteps, maxLoop: *maxLoop, transparent: transparent, solverBin: *solver,
			timeoutMs: *timeout, incTimeoutMs: *incTimeout, portfolio: *portfolio, crossCheck: *cross, workers: *workers, maxPaths: *maxPaths, wantWitness: *witness, maxBigBytes: *maxBig}
		}
		res := eng.Explore(fn)
		results = append(results, res)
		fmt.Fprintf(os.Stderr, "symgo: %s: %d paths %v, %d queries, %.1fs solver, %.1fs wall, %d violations\n",
			h, res.Paths, res.Outcomes, res.Queries, res.SolverS, res.WallS, len(res.Violations))
	}
	doc := map[string]interface{}{"load_s": loadS, "package": target.Pkg.Path(), "results": results, "solver": *solver, "timeout_ms": *timeout}
	b, _ := json.MarshalIndent(doc, "", " ")
	if *out != "" {
		if err := os.WriteFile(*out, b, 0644); err != nil {
			fatal("write: %v", err)
		}
	} else {
		os.Stdout.Write(b)
	}
}

var defaultTransparent = map[string]bool{
	"encoding/base32": true,
	"encoding/hex":    true,
	"encoding/binary": true,
	"errors":          true,
	"io":              true,
	"sort":            true,
	"strings":         true,
	"bytes":           true,
	"math/bits":       true,
	"unicode/utf8":    true,
	"strconv":         true,
}
