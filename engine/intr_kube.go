package main

import (
	"crypto/sha256"
	"fmt"
	"go/types"

	"golang.org/x/tools/go/ssa"
)

// Hashes: computed natively on concrete input; on symbolic input they are uninterpreted
// (fresh symbolic digest per distinct call; collision resistance is ASSUMED, never proved).
// k8s resource.Quantity: opaque value carrying the integer amount and its scale.

type quantityObj struct {
	val   *Term // Int
	milli bool
}

func caseMap(p *Path, s StrV, upper bool) Value {
	if s.parts != nil {
		p.unsup("case mapping of a lazily formatted string")
	}
	bs := strBytes(s)
	out := make([]*Term, len(bs))
	for i, b := range bs {
		if b.cst && b.ival.Int64() >= 0x80 {
			p.unsup("case mapping of non-ASCII text")
		}
		if b.kind == SBV {
			c := func(v int64) *Term { return mkBV(bigInt(v), b.w) }
			if upper {
				isLower := tAnd(bvCmp("bvuge", b, c('a')), bvCmp("bvule", b, c('z')))
				out[i] = tIte(isLower, bvBin("bvsub", b, c(32)), b)
			} else {
				isUpper := tAnd(bvCmp("bvuge", b, c('A')), bvCmp("bvule", b, c('Z')))
				out[i] = tIte(isUpper, bvBin("bvadd", b, c(32)), b)
			}
			continue
		}
		if upper {
			isLower := tAnd(iGe(b, mkInt64('a')), iLe(b, mkInt64('z')))
			out[i] = tIte(isLower, iSub(b, mkInt64(32)), b)
		} else {
			isUpper := tAnd(iGe(b, mkInt64('A')), iLe(b, mkInt64('Z')))
			out[i] = tIte(isUpper, iAdd(b, mkInt64(32)), b)
		}
	}
	return mkStr(out)
}

func init() {
	hash := func(size int, f func([]byte) []byte) Intrinsic {
		return func(p *Path, fn *ssa.Function, a []Value) Value {
			s := a[0].(SliceV)
			var ts []*Term
			all := true
			if s.lazy != nil {
				all = false // formatted from symbolic parts: symbolic input
			} else {
				ts = sliceTerms(s)
			}
			conc := make([]byte, len(ts))
			for i, t := range ts {
				if !t.cst {
					all = false
					break
				}
				conc[i] = byte(t.ival.Int64())
			}
			vals := make([]Value, size)
			if all {
				for i, b := range f(conc) {
					vals[i] = mkInt64(int64(b))
				}
			} else {
				// uninterpreted FUNCTION of the input: the same (syntactic) input gives the same digest
				p.aux["assumes-collision-resistance"] = true
				key := fn.Name() + ":"
				if s.lazy != nil {
					key += valString(*s.lazy)
					for _, q := range s.lazy.parts {
						if q.dec != nil {
							key += "|" + q.dec.String()
						}
					}
				} else {
					for _, t := range ts {
						key += t.String() + ","
					}
				}
				if old, ok := p.aux["hash:"+key]; ok {
					return old.(ArrayV)
				}
				for i := range vals {
					t := p.sol.FreshVar("digest", SBV, 8)
					vals[i] = t
				}
				p.aux["hash:"+key] = ArrayV{vals}
			}
			return ArrayV{vals}
		}
	}
	reg("crypto/sha256.Sum224", hash(28, func(b []byte) []byte { h := sha256.Sum224(b); return h[:] }))
	reg("crypto/sha256.Sum256", hash(32, func(b []byte) []byte { h := sha256.Sum256(b); return h[:] }))
	reg("strings.ToLower", func(p *Path, fn *ssa.Function, a []Value) Value { return caseMap(p, a[0].(StrV), false) })
	reg("strings.ToUpper", func(p *Path, fn *ssa.Function, a []Value) Value { return caseMap(p, a[0].(StrV), true) })

	reg("math.Round", func(p *Path, fn *ssa.Function, a []Value) Value {
		return mkApp(SFP, 0, "fp.roundToIntegral RNA", a[0].(*Term))
	})
	reg("math.Floor", func(p *Path, fn *ssa.Function, a []Value) Value {
		return mkApp(SFP, 0, "fp.roundToIntegral RTN", a[0].(*Term))
	})
	reg("math.Ceil", func(p *Path, fn *ssa.Function, a []Value) Value {
		return mkApp(SFP, 0, "fp.roundToIntegral RTP", a[0].(*Term))
	})

	R := "k8s.io/apimachinery/pkg/api/resource."
	mkq := func(p *Path, v *Term, milli bool) Value {
		return PtrV{c: p.newCell(OpaqueV{kind: "quantity", data: &quantityObj{val: v, milli: milli}}, nil)}
	}
	reg(R+"NewQuantity", func(p *Path, fn *ssa.Function, a []Value) Value { return mkq(p, bvToInt(a[0].(*Term), true), false) })
	reg(R+"NewMilliQuantity", func(p *Path, fn *ssa.Function, a []Value) Value { return mkq(p, bvToInt(a[0].(*Term), true), true) })
	reg(R+"NewScaledQuantity", func(p *Path, fn *ssa.Function, a []Value) Value {
		sc := a[1].(*Term)
		if !sc.cst {
			p.unsup("symbolic quantity scale")
		}
		switch sc.ival.Int64() {
		case -3:
			return mkq(p, bvToInt(a[0].(*Term), true), true)
		case 0:
			return mkq(p, bvToInt(a[0].(*Term), true), false)
		}
		p.unsup("quantity scale %v", sc.ival)
		return nil
	})
	qof := func(p *Path, v Value) *quantityObj {
		if pv, ok := v.(PtrV); ok {
			if pv.c == nil {
				p.throwRuntime("nil *resource.Quantity")
			}
			v = pv.load()
		}
		ov, ok := v.(OpaqueV)
		if !ok || ov.kind != "quantity" {
			p.unsup("resource.Quantity that was not built by NewQuantity/NewScaledQuantity (%T)", v)
		}
		return ov.data.(*quantityObj)
	}
	reg("(*"+R+"Quantity).DeepCopy", func(p *Path, fn *ssa.Function, a []Value) Value {
		q := qof(p, a[0])
		return OpaqueV{kind: "quantity", data: &quantityObj{val: q.val, milli: q.milli}}
	})
	reg("("+R+"Quantity).DeepCopy", intrinsics["(*"+R+"Quantity).DeepCopy"])
	reg("(*"+R+"Quantity).Value", func(p *Path, fn *ssa.Function, a []Value) Value {
		q := qof(p, a[0])
		if q.milli {
			// Value() rounds up to whole units
			return iNeg(iDivE(iNeg(q.val), mkInt64(1000)))
		}
		return q.val
	})
	reg("(*"+R+"Quantity).MilliValue", func(p *Path, fn *ssa.Function, a []Value) Value {
		q := qof(p, a[0])
		if q.milli {
			return q.val
		}
		return iMul(q.val, mkInt64(1000))
	})
	_ = fmt.Sprint
	_ = types.Typ
}
