package main

import (
	"fmt"
	"go/types"
	"math/big"
	"strings"

	"golang.org/x/tools/go/ssa"
)

type Intrinsic func(p *Path, fn *ssa.Function, args []Value) Value

var intrinsics = map[string]Intrinsic{}
var prefixIntrinsics = []struct {
	prefix string
	fn     Intrinsic
}{}
var noopPackages = map[string]bool{
	"github.com/cosmos/cosmos-sdk/telemetry":          true,
	"github.com/armon/go-metrics":                     true,
	"github.com/prometheus/client_golang/prometheus":  true,
	"github.com/prometheus/client_golang/prometheus/promauto": true,
}

var knownGlobals = map[string]func(p *Path) Value{}

func reg(name string, f Intrinsic) { intrinsics[name] = f }

func lookupIntrinsic(fn *ssa.Function) (Intrinsic, bool) {
	name := fn.String()
	if f, ok := intrinsics[name]; ok {
		return f, true
	}
	n := fn.Name()
	if strings.HasPrefix(n, "verif_") {
		if f, ok := intrinsics[n]; ok {
			return f, true
		}
		return func(p *Path, fn *ssa.Function, args []Value) Value {
			p.unsup("unknown shim function %s", n)
			return nil
		}, true
	}
	if fn.Pkg != nil && noopPackages[fn.Pkg.Pkg.Path()] {
		return func(p *Path, fn *ssa.Function, args []Value) Value { return p.opaqueResult(fn) }, true
	}
	if o := fn.Origin(); o != nil && o != fn {
		if f, ok := intrinsics[o.String()]; ok {
			return f, true
		}
	}
	return nil, false
}

// functions without a Go body (assembly)
func lookupExternal(fn *ssa.Function) (Intrinsic, bool) {
	f, ok := intrinsics["ext:"+fn.String()]
	return f, ok
}

func initExecutable(fn *ssa.Function) bool {
	// functions of opaque packages that are nevertheless executed for real during package init
	if fn.Pkg == nil {
		return true
	}
	switch fn.Pkg.Pkg.Path() {
	case "errors", "bytes", "strings", "sort", "encoding/binary", "math/bits", "strconv", "unicode/utf8",
		"github.com/cosmos/cosmos-sdk/types/errors":
		return true
	}
	return false
}

var errType = types.NewNamed(types.NewTypeName(0, nil, "symgo.error", nil), types.NewStruct(nil, nil), nil)
var opaqueType = types.NewNamed(types.NewTypeName(0, nil, "symgo.opaque", nil), types.NewStruct(nil, nil), nil)

type ErrObj struct {
	msg   string
	cause Value // IfaceV or nil
	id    int
}

func (p *Path) newError(msg string, cause Value) Value {
	p.cellSeq++
	return IfaceV{t: errType, v: OpaqueV{kind: "error", data: &ErrObj{msg: msg, cause: cause, id: p.cellSeq}}}
}

func (p *Path) opaqueResult(fn *ssa.Function) Value {
	res := fn.Signature.Results()
	mk := func(t types.Type) Value {
		switch u := t.Underlying().(type) {
		case *types.Interface:
			if t.String() == "error" {
				return IfaceV{}
			}
			return IfaceV{t: opaqueType, v: OpaqueV{kind: "opaqueinit", data: fn.String()}}
		case *types.Pointer:
			_ = u
			return PtrV{c: p.newCell(OpaqueV{kind: "opaqueinit", data: fn.String()}, nil)}
		default:
			defer func() {
				if r := recover(); r != nil {
					panic(unsupported{fmt.Sprintf("opaque init result of %s: %v", fn, r)})
				}
			}()
			return zeroValue(t)
		}
	}
	switch res.Len() {
	case 0:
		return nil
	case 1:
		return mk(res.At(0).Type())
	}
	tv := make(TupleV, res.Len())
	for i := range tv {
		tv[i] = mk(res.At(i).Type())
	}
	return tv
}

// ---------- shim ----------

func (p *Path) strArg(v Value) string {
	s, ok := v.(StrV)
	if !ok {
		p.unsup("expected string, got %T", v)
	}
	c, ok := strConcrete(s)
	if !ok {
		p.unsup("expected concrete string")
	}
	return c
}

func (p *Path) newInput(label, kind string, k SortKind, w, n int) []*Term {
	ts := make([]*Term, n)
	names := make([]string, n)
	for i := range ts {
		ts[i] = p.sol.FreshVar(label, k, w)
		names[i] = ts[i].name
	}
	p.inputs = append(p.inputs, InputRec{Label: label, Kind: kind, Vars: names})
	return ts
}

func rangeTerm(t *Term, lo, hi *big.Int) *Term {
	return tAnd(iGe(t, mkInt(lo)), iLe(t, mkInt(hi)))
}

func intRange(w int, signed bool) (*big.Int, *big.Int) {
	if signed {
		return new(big.Int).Neg(pow2(w - 1)), new(big.Int).Sub(pow2(w-1), big.NewInt(1))
	}
	return big.NewInt(0), new(big.Int).Sub(pow2(w), big.NewInt(1))
}

func (p *Path) symGoInt(label, kind string, w int, signed bool) Value {
	t := p.newInput(label, kind, SInt, 0, 1)[0]
	lo, hi := intRange(w, signed)
	p.sol.Assert(rangeTerm(t, lo, hi))
	return t
}

var sdkIntLimit = new(big.Int).Sub(pow2(255), big.NewInt(1))

func init() {
	reg("verif_Int", func(p *Path, fn *ssa.Function, a []Value) Value {
		t := p.newInput(p.strArg(a[0]), "int", SInt, 0, 1)[0]
		p.sol.Assert(rangeTerm(t, new(big.Int).Neg(sdkIntLimit), sdkIntLimit))
		return BigV{t: t}
	})
	reg("verif_I64", func(p *Path, fn *ssa.Function, a []Value) Value { return p.symGoInt(p.strArg(a[0]), "i64", 64, true) })
	reg("verif_I32", func(p *Path, fn *ssa.Function, a []Value) Value { return p.symGoInt(p.strArg(a[0]), "i32", 32, true) })
	reg("verif_U64", func(p *Path, fn *ssa.Function, a []Value) Value { return p.symGoInt(p.strArg(a[0]), "u64", 64, false) })
	reg("verif_U32", func(p *Path, fn *ssa.Function, a []Value) Value { return p.symGoInt(p.strArg(a[0]), "u32", 32, false) })
	reg("verif_U16", func(p *Path, fn *ssa.Function, a []Value) Value { return p.symGoInt(p.strArg(a[0]), "u16", 16, false) })
	reg("verif_U8", func(p *Path, fn *ssa.Function, a []Value) Value { return p.symGoInt(p.strArg(a[0]), "u8", 8, false) })
	reg("verif_BV64", func(p *Path, fn *ssa.Function, a []Value) Value {
		return p.newInput(p.strArg(a[0]), "u64", SBV, 64, 1)[0]
	})
	reg("verif_BV32", func(p *Path, fn *ssa.Function, a []Value) Value {
		return p.newInput(p.strArg(a[0]), "u32", SBV, 32, 1)[0]
	})
	reg("verif_Bool", func(p *Path, fn *ssa.Function, a []Value) Value {
		return p.newInput(p.strArg(a[0]), "bool", SBool, 0, 1)[0]
	})
	reg("verif_F64", func(p *Path, fn *ssa.Function, a []Value) Value {
		return p.newInput(p.strArg(a[0]), "f64", SFP, 0, 1)[0]
	})
	reg("verif_Bytes", func(p *Path, fn *ssa.Function, a []Value) Value {
		n := p.concreteInt(a[1], "verif_Bytes n")
		ts := p.newInput(p.strArg(a[0]), "bytes", SBV, 8, n)
		vals := make([]Value, n)
		for i, t := range ts {
			vals[i] = t
		}
		return p.sliceFrom(vals)
	})
	reg("verif_Str", func(p *Path, fn *ssa.Function, a []Value) Value {
		n := p.concreteInt(a[1], "verif_Str n")
		ts := p.newInput(p.strArg(a[0]), "bytes", SBV, 8, n)
		return mkStr(ts)
	})
	reg("verif_Choice", func(p *Path, fn *ssa.Function, a []Value) Value {
		n := p.concreteInt(a[1], "verif_Choice n")
		v := p.choose(n, p.strArg(a[0]))
		p.inputs = append(p.inputs, InputRec{Label: p.strArg(a[0]), Kind: "choice", Const: fmt.Sprint(v)})
		return mkInt64(int64(v))
	})
	reg("verif_Assume", func(p *Path, fn *ssa.Function, a []Value) Value {
		p.assume(a[0].(*Term))
		return nil
	})
	reg("verif_Assert", func(p *Path, fn *ssa.Function, a []Value) Value {
		p.assertProp(a[0].(*Term), p.strArg(a[1]))
		return nil
	})
	reg("verif_Lemma", func(p *Path, fn *ssa.Function, a []Value) Value {
		// cut: prove, then use
		p.assertProp(a[0].(*Term), p.strArg(a[1]))
		p.sol.Assert(a[0].(*Term))
		return nil
	})
	reg("verif_Reach", func(p *Path, fn *ssa.Function, a []Value) Value {
		p.reached = append(p.reached, p.strArg(a[0]))
		return nil
	})
	reg("verif_Log", func(p *Path, fn *ssa.Function, a []Value) Value {
		p.log = append(p.log, p.strArg(a[0]))
		return nil
	})
	reg("verif_Symbolic", func(p *Path, fn *ssa.Function, a []Value) Value { return tTrue })
	reg("verif_And", func(p *Path, fn *ssa.Function, a []Value) Value {
		s := a[0].(SliceV)
		ts := make([]*Term, 0, s.len)
		for _, e := range s.elems() {
			ts = append(ts, e.(*Term))
		}
		return tAnd(ts...)
	})
	reg("verif_Or", func(p *Path, fn *ssa.Function, a []Value) Value {
		s := a[0].(SliceV)
		ts := make([]*Term, 0, s.len)
		for _, e := range s.elems() {
			ts = append(ts, e.(*Term))
		}
		return tOr(ts...)
	})
	reg("verif_Implies", func(p *Path, fn *ssa.Function, a []Value) Value {
		return tImplies(a[0].(*Term), a[1].(*Term))
	})
	reg("verif_Not", func(p *Path, fn *ssa.Function, a []Value) Value { return tNot(a[0].(*Term)) })
	reg("verif_Iff", func(p *Path, fn *ssa.Function, a []Value) Value { return tEq(a[0].(*Term), a[1].(*Term)) })
	reg("verif_IteInt", func(p *Path, fn *ssa.Function, a []Value) Value {
		return BigV{t: tIte(a[0].(*Term), a[1].(BigV).t, a[2].(BigV).t)}
	})
	reg("verif_IteI64", func(p *Path, fn *ssa.Function, a []Value) Value {
		x, y := a[1].(*Term), a[2].(*Term)
		if x.kind != y.kind {
			x, y = bvToInt(x, true), bvToInt(y, true)
		}
		return tIte(a[0].(*Term), x, y)
	})
	reg("verif_ObserveInt", func(p *Path, fn *ssa.Function, a []Value) Value {
		p.observes = append(p.observes, obsRec{label: p.strArg(a[0]), terms: []*Term{a[1].(BigV).t}})
		return nil
	})
	reg("verif_ObserveI64", func(p *Path, fn *ssa.Function, a []Value) Value {
		p.observes = append(p.observes, obsRec{label: p.strArg(a[0]), terms: []*Term{bvToInt(a[1].(*Term), true)}})
		return nil
	})
	reg("verif_ObserveU64", func(p *Path, fn *ssa.Function, a []Value) Value {
		p.observes = append(p.observes, obsRec{label: p.strArg(a[0]), terms: []*Term{bvToInt(a[1].(*Term), false)}})
		return nil
	})
	reg("verif_ObserveBool", func(p *Path, fn *ssa.Function, a []Value) Value {
		p.observes = append(p.observes, obsRec{label: p.strArg(a[0]), terms: []*Term{a[1].(*Term)}})
		return nil
	})
	reg("verif_ObserveBytes", func(p *Path, fn *ssa.Function, a []Value) Value {
		s := a[1].(SliceV)
		ts := make([]*Term, 0, s.len)
		for _, e := range s.elems() {
			ts = append(ts, bvToInt(e.(*Term), false))
		}
		p.observes = append(p.observes, obsRec{label: p.strArg(a[0]), terms: ts})
		return nil
	})
	reg("verif_MapOrderChoice", func(p *Path, fn *ssa.Function, a []Value) Value {
		p.mapChoice = a[0].(*Term).bval
		return nil
	})
}
