package main

import (
	"fmt"
	"go/types"
	"math/big"
	"regexp"
	"strings"

	"golang.org/x/tools/go/ssa"
)

var reDenom = regexp.MustCompile(`^[a-zA-Z][a-zA-Z0-9/]{2,127}$`)

// fmtValue renders a value for %v/%s/%d; ok=false when only approximate.
func (p *Path) fmtValue(v Value, verb byte) ([]StrPart, bool) {
	switch x := v.(type) {
	case nil:
		return []StrPart{{lit: "<nil>"}}, true
	case IfaceV:
		if x.t == nil {
			return []StrPart{{lit: "<nil>"}}, true
		}
		if ov, ok := x.v.(OpaqueV); ok {
			if eo, ok := ov.data.(*ErrObj); ok {
				return []StrPart{{lit: eo.msg}}, true
			}
			return []StrPart{{lit: "<" + ov.kind + ">"}}, false
		}
		// error / Stringer with real code
		if m := p.findMethod(x.t, "Error"); m != nil && verb != 'd' {
			r := p.callFunction(m, []Value{x.v}, nil, nil)
			return toParts(r.(StrV)), true
		}
		if m := p.findMethod(x.t, "String"); m != nil && verb != 'd' {
			r := p.callFunction(m, []Value{x.v}, nil, nil)
			return toParts(r.(StrV)), true
		}
		return p.fmtValue(x.v, verb)
	case StrV:
		if x.parts != nil {
			return x.parts, true
		}
		if c, ok := strConcrete(x); ok {
			if verb == 'q' {
				return []StrPart{{lit: fmt.Sprintf("%q", c)}}, true
			}
			return []StrPart{{lit: c}}, true
		}
		return []StrPart{{approx: true}}, false
	case *Term:
		if x.cst {
			switch x.kind {
			case SBool:
				return []StrPart{{lit: fmt.Sprint(x.bval)}}, true
			case SInt:
				return []StrPart{{lit: x.ival.String()}}, true
			case SBV:
				return []StrPart{{lit: x.ival.String()}}, false
			}
		}
		if x.kind == SInt {
			return []StrPart{{dec: x}}, true
		}
		return []StrPart{{approx: true}}, false
	case BigV:
		if x.isNil {
			return []StrPart{{lit: "<nil>"}}, true
		}
		return toParts(decString(x.t)), true
	}
	return []StrPart{{approx: true}}, false
}

func (p *Path) findMethod(t types.Type, name string) *ssa.Function {
	ms := p.eng.prog.MethodSets.MethodSet(t)
	for i := 0; i < ms.Len(); i++ {
		if ms.At(i).Obj().Name() == name {
			return p.eng.prog.MethodValue(ms.At(i))
		}
	}
	return nil
}

func (p *Path) sprintf(format string, args []Value) (StrV, Value) {
	var parts []StrPart
	var wrapped Value
	ai := 0
	lit := strings.Builder{}
	flush := func() {
		if lit.Len() > 0 {
			parts = append(parts, StrPart{lit: lit.String()})
			lit.Reset()
		}
	}
	for i := 0; i < len(format); i++ {
		c := format[i]
		if c != '%' {
			lit.WriteByte(c)
			continue
		}
		i++
		if i >= len(format) {
			break
		}
		// skip flags/width
		for i < len(format) && strings.ContainsRune("+-# 0123456789.", rune(format[i])) {
			i++
		}
		if i >= len(format) {
			break
		}
		verb := format[i]
		if verb == '%' {
			lit.WriteByte('%')
			continue
		}
		if ai >= len(args) {
			lit.WriteString("%!" + string(verb) + "(MISSING)")
			continue
		}
		a := args[ai]
		ai++
		if verb == 'w' {
			wrapped = a
		}
		ps, _ := p.fmtValue(a, verb)
		flush()
		parts = append(parts, ps...)
	}
	flush()
	s := strConcatParts(StrV{parts: parts}, StrV{})
	return s, wrapped
}

func sliceArgs(v Value) []Value {
	s, ok := v.(SliceV)
	if !ok || s.isNil {
		return nil
	}
	return s.elems()
}

func (p *Path) errorMessage(e Value) string {
	iv, ok := e.(IfaceV)
	if !ok || iv.t == nil {
		return "<nil>"
	}
	if ov, ok := iv.v.(OpaqueV); ok {
		if eo, ok := ov.data.(*ErrObj); ok {
			return eo.msg
		}
		return "<" + ov.kind + ">"
	}
	if m := p.findMethod(iv.t, "Error"); m != nil {
		r := p.callFunction(m, []Value{iv.v}, nil, nil).(StrV)
		if c, ok := strConcrete(r); ok {
			return c
		}
		return "<symbolic message>"
	}
	return "<error>"
}

// errorCause unwraps one level (pkg/errors Cause/Unwrap, fmt %w, sdkerrors wrappedError)
func (p *Path) errorUnwrap(e Value) (Value, bool) {
	iv, ok := e.(IfaceV)
	if !ok || iv.t == nil {
		return nil, false
	}
	if ov, ok := iv.v.(OpaqueV); ok {
		if eo, ok := ov.data.(*ErrObj); ok && eo.cause != nil {
			return eo.cause, true
		}
		return nil, false
	}
	for _, name := range []string{"Unwrap", "Cause"} {
		if m := p.findMethod(iv.t, name); m != nil && m.Signature.Params().Len() == 0 {
			r := p.callFunction(m, []Value{iv.v}, nil, nil)
			if ri, ok := r.(IfaceV); ok && ri.t != nil {
				return ri, true
			}
		}
	}
	return nil, false
}

func (p *Path) errorsIs(e, target Value) *Term {
	for depth := 0; depth < 20; depth++ {
		iv, ok := e.(IfaceV)
		if !ok || iv.t == nil {
			return mkBool(isNilValue(target))
		}
		eq := p.valuesEqual(e, target)
		if eq.cst && eq.bval {
			return tTrue
		}
		// sdkerrors.Error has an Is method
		if _, opaque := iv.v.(OpaqueV); !opaque {
			if m := p.findMethod(iv.t, "Is"); m != nil {
				r := p.callFunction(m, []Value{iv.v, target}, nil, nil).(*Term)
				if r.cst && r.bval {
					return tTrue
				}
			}
		}
		nx, ok := p.errorUnwrap(e)
		if !ok {
			return tFalse
		}
		e = nx
	}
	return tFalse
}

func init() {
	reg(sdkT+"ValidateDenom", func(p *Path, fn *ssa.Function, a []Value) Value {
		s := a[0].(StrV)
		c, ok := strConcrete(s)
		if !ok {
			p.unsup("ValidateDenom on symbolic denom")
		}
		if reDenom.MatchString(c) {
			return IfaceV{}
		}
		return p.newError("invalid denom: "+c, nil)
	})
	sprintf := func(p *Path, fn *ssa.Function, a []Value) Value {
		s, _ := p.sprintf(p.fmtString(a[0]), sliceArgs(a[1]))
		return s
	}
	reg("fmt.Sprintf", sprintf)
	reg("fmt.Sprint", func(p *Path, fn *ssa.Function, a []Value) Value {
		var parts []StrPart
		for _, x := range sliceArgs(a[0]) {
			ps, _ := p.fmtValue(x, 'v')
			parts = append(parts, ps...)
		}
		return strConcatParts(StrV{parts: parts}, StrV{})
	})
	reg("fmt.Errorf", func(p *Path, fn *ssa.Function, a []Value) Value {
		s, w := p.sprintf(p.fmtString(a[0]), sliceArgs(a[1]))
		return p.newError(p.msgOf(s), w)
	})
	for _, n := range []string{"fmt.Println", "fmt.Printf", "fmt.Print", "fmt.Fprintf", "fmt.Fprintln", "fmt.Fprint"} {
		reg(n, func(p *Path, fn *ssa.Function, a []Value) Value { return TupleV{mkInt64(0), IfaceV{}} })
	}
	// github.com/pkg/errors
	P := "github.com/pkg/errors."
	reg(P+"New", func(p *Path, fn *ssa.Function, a []Value) Value { return p.newError(p.msgOf(a[0].(StrV)), nil) })
	reg(P+"Errorf", func(p *Path, fn *ssa.Function, a []Value) Value {
		s, w := p.sprintf(p.fmtString(a[0]), sliceArgs(a[1]))
		return p.newError(p.msgOf(s), w)
	})
	wrap := func(p *Path, e Value, msg string) Value {
		if isNilValue(e) {
			return IfaceV{}
		}
		return p.newError(msg+": "+p.errorMessage(e), e)
	}
	reg(P+"Wrap", func(p *Path, fn *ssa.Function, a []Value) Value { return wrap(p, a[0], p.msgOf(a[1].(StrV))) })
	reg(P+"Wrapf", func(p *Path, fn *ssa.Function, a []Value) Value {
		s, _ := p.sprintf(p.fmtString(a[1]), sliceArgs(a[2]))
		return wrap(p, a[0], p.msgOf(s))
	})
	reg(P+"WithMessage", func(p *Path, fn *ssa.Function, a []Value) Value { return wrap(p, a[0], p.msgOf(a[1].(StrV))) })
	reg(P+"WithStack", func(p *Path, fn *ssa.Function, a []Value) Value { return a[0] })
	reg(P+"Cause", func(p *Path, fn *ssa.Function, a []Value) Value {
		e := a[0]
		for i := 0; i < 20; i++ {
			nx, ok := p.errorUnwrap(e)
			if !ok {
				break
			}
			e = nx
		}
		return e
	})
	for _, pk := range []string{"errors.", P} {
		// errors.As: first error in the chain assignable to *target (custom As methods are not consulted)
		reg(pk+"As", func(p *Path, fn *ssa.Function, a []Value) Value {
			tv, ok := a[1].(IfaceV)
			if !ok || tv.t == nil {
				p.throwRuntime("errors: target cannot be nil")
			}
			pt, ok := tv.t.Underlying().(*types.Pointer)
			if !ok {
				p.throwRuntime("errors: target must be a non-nil pointer")
			}
			T := pt.Elem()
			ptr := tv.v.(PtrV)
			e := a[0]
			for depth := 0; depth < 20; depth++ {
				iv, ok := e.(IfaceV)
				if !ok || iv.t == nil {
					return tFalse
				}
				if types.IsInterface(T) {
					if p.implements(iv, T.Underlying().(*types.Interface)) {
						ptr.store(iv)
						return tTrue
					}
				} else if types.Identical(iv.t, T) {
					ptr.store(iv.v)
					return tTrue
				}
				nx, ok := p.errorUnwrap(e)
				if !ok {
					return tFalse
				}
				e = nx
			}
			return tFalse
		})
		reg(pk+"Is", func(p *Path, fn *ssa.Function, a []Value) Value { return p.errorsIs(a[0], a[1]) })
		reg(pk+"Unwrap", func(p *Path, fn *ssa.Function, a []Value) Value {
			nx, ok := p.errorUnwrap(a[0])
			if !ok {
				return IfaceV{}
			}
			return nx
		})
	}
	// cosmos-sdk errors: Wrap/Wrapf keep identity of the cause for errors.Is
	S := "github.com/cosmos/cosmos-sdk/types/errors."
	reg(S+"Wrap", func(p *Path, fn *ssa.Function, a []Value) Value { return wrap(p, a[0], p.msgOf(a[1].(StrV))) })
	reg(S+"Wrapf", func(p *Path, fn *ssa.Function, a []Value) Value {
		s, _ := p.sprintf(p.fmtString(a[1]), sliceArgs(a[2]))
		return wrap(p, a[0], p.msgOf(s))
	})
	reg(S+"Register", func(p *Path, fn *ssa.Function, a []Value) Value {
		cs := p.strArg(a[0])
		code := p.concreteInt(a[1], "error code")
		desc := p.strArg(a[2])
		key := fmt.Sprintf("%s/%d", cs, code)
		// stable identity per (codespace, code) within a path
		if v, ok := p.aux["sdkerr:"+key]; ok {
			return v.(Value)
		}
		c := p.newCell(OpaqueV{kind: "sdkerror", data: &SdkErr{codespace: cs, code: code, desc: desc}}, nil)
		v := PtrV{c: c}
		p.aux["sdkerr:"+key] = v
		return v
	})
	reg("(*"+S+"Error).Error", func(p *Path, fn *ssa.Function, a []Value) Value {
		return StrV{s: a[0].(PtrV).load().(OpaqueV).data.(*SdkErr).desc}
	})
	reg("(*"+S+"Error).Is", func(p *Path, fn *ssa.Function, a []Value) Value {
		// identity of registered errors, following wrapping of the target
		self := a[0].(PtrV)
		t := a[1]
		for i := 0; i < 20; i++ {
			iv, ok := t.(IfaceV)
			if !ok || iv.t == nil {
				return tFalse
			}
			if pv, ok := iv.v.(PtrV); ok && pv.c == self.c {
				return tTrue
			}
			nx, ok := p.errorUnwrap(t)
			if !ok {
				return tFalse
			}
			t = nx
		}
		return tFalse
	})
	reg("(*"+S+"Error).ABCICode", func(p *Path, fn *ssa.Function, a []Value) Value {
		return mkInt64(int64(a[0].(PtrV).load().(OpaqueV).data.(*SdkErr).code))
	})
	reg("(*"+S+"Error).Codespace", func(p *Path, fn *ssa.Function, a []Value) Value {
		return StrV{s: a[0].(PtrV).load().(OpaqueV).data.(*SdkErr).codespace}
	})

	// strconv
	reg("strconv.Itoa", func(p *Path, fn *ssa.Function, a []Value) Value { return decString(bvToInt(a[0].(*Term), true)) })
	reg("strconv.FormatInt", func(p *Path, fn *ssa.Function, a []Value) Value {
		if p.concreteInt(a[1], "base") != 10 {
			p.unsup("FormatInt base")
		}
		return decString(bvToInt(a[0].(*Term), true))
	})
	reg("strconv.FormatUint", func(p *Path, fn *ssa.Function, a []Value) Value {
		if p.concreteInt(a[1], "base") != 10 {
			p.unsup("FormatUint base")
		}
		return decString(bvToInt(a[0].(*Term), false))
	})
	reg("strconv.FormatBool", func(p *Path, fn *ssa.Function, a []Value) Value {
		t := a[0].(*Term)
		if !t.cst {
			if p.decide(t) {
				return StrV{s: "true"}
			}
			return StrV{s: "false"}
		}
		return StrV{s: fmt.Sprint(t.bval)}
	})
	parseInt := func(p *Path, s StrV, bits int, signed bool) Value {
		t, ok := parseDec(s, signed)
		if !ok {
			if s.parts != nil || s.sym != nil {
				p.unsup("strconv.Parse* of symbolic text")
			}
			return TupleV{mkInt64(0), p.newError("strconv: parsing "+s.s+": invalid syntax", nil)}
		}
		if bits == 0 {
			bits = 64
		}
		lo, hi := intRange(bits, signed)
		if !p.decide(rangeTerm(t, lo, hi)) {
			return TupleV{mkInt64(0), p.newError("strconv: value out of range", nil)}
		}
		return TupleV{t, IfaceV{}}
	}
	reg("strconv.ParseUint", func(p *Path, fn *ssa.Function, a []Value) Value {
		if b := p.concreteInt(a[1], "base"); b != 10 && b != 0 {
			p.unsup("ParseUint base")
		}
		return parseInt(p, a[0].(StrV), p.concreteInt(a[2], "bits"), false)
	})
	reg("strconv.ParseInt", func(p *Path, fn *ssa.Function, a []Value) Value {
		if b := p.concreteInt(a[1], "base"); b != 10 && b != 0 {
			p.unsup("ParseInt base")
		}
		return parseInt(p, a[0].(StrV), p.concreteInt(a[2], "bits"), true)
	})
	reg("strconv.Atoi", func(p *Path, fn *ssa.Function, a []Value) Value { return parseInt(p, a[0].(StrV), 64, true) })

	// sync: single-goroutine model
	for _, n := range []string{"(*sync.Mutex).Lock", "(*sync.Mutex).Unlock", "(*sync.RWMutex).Lock", "(*sync.RWMutex).Unlock",
		"(*sync.RWMutex).RLock", "(*sync.RWMutex).RUnlock", "(*sync.WaitGroup).Add", "(*sync.WaitGroup).Done", "(*sync.WaitGroup).Wait"} {
		reg(n, func(p *Path, fn *ssa.Function, a []Value) Value { return nil })
	}
	reg("(*sync.Once).Do", func(p *Path, fn *ssa.Function, a []Value) Value {
		ptr := a[0].(PtrV)
		key := fmt.Sprintf("once:%d%v", ptr.c.id, ptr.path)
		if _, ok := p.aux[key]; ok {
			return nil
		}
		p.aux[key] = true
		p.callValue(a[1], nil, nil, nil)
		return nil
	})
	// sync.Map: single-goroutine model, an insertion-ordered association list per map object
	// (Range visits in insertion order: one of the orders the real map may use)
	syncMap := func(p *Path, v Value) *MapObj {
		ptr := v.(PtrV)
		key := fmt.Sprintf("syncmap:%d%v", ptr.c.id, ptr.path)
		if m, ok := p.aux[key]; ok {
			return m.(*MapObj)
		}
		m := p.newMap(nil, nil)
		p.aux[key] = m
		return m
	}
	nilIface := IfaceV{}
	reg("(*sync.Map).Load", func(p *Path, fn *ssa.Function, a []Value) Value {
		m := syncMap(p, a[0])
		if i := p.mapFind(m, a[1]); i >= 0 {
			return TupleV{m.entries[i].v, mkBool(true)}
		}
		return TupleV{nilIface, mkBool(false)}
	})
	reg("(*sync.Map).Store", func(p *Path, fn *ssa.Function, a []Value) Value {
		p.mapSet(syncMap(p, a[0]), a[1], a[2])
		return nil
	})
	reg("(*sync.Map).LoadOrStore", func(p *Path, fn *ssa.Function, a []Value) Value {
		m := syncMap(p, a[0])
		if i := p.mapFind(m, a[1]); i >= 0 {
			return TupleV{m.entries[i].v, mkBool(true)}
		}
		p.mapSet(m, a[1], a[2])
		return TupleV{a[2], mkBool(false)}
	})
	reg("(*sync.Map).LoadAndDelete", func(p *Path, fn *ssa.Function, a []Value) Value {
		m := syncMap(p, a[0])
		if i := p.mapFind(m, a[1]); i >= 0 {
			v := m.entries[i].v
			p.mapDelete(m, a[1])
			return TupleV{v, mkBool(true)}
		}
		return TupleV{nilIface, mkBool(false)}
	})
	reg("(*sync.Map).Delete", func(p *Path, fn *ssa.Function, a []Value) Value {
		p.mapDelete(syncMap(p, a[0]), a[1])
		return nil
	})
	reg("(*sync.Map).Range", func(p *Path, fn *ssa.Function, a []Value) Value {
		m := syncMap(p, a[0])
		for _, e := range append([]MapEntry(nil), m.entries...) {
			r := p.callValue(a[1], []Value{e.k, e.v}, nil, nil)
			if !p.decide(r.(*Term)) {
				break
			}
		}
		return nil
	})
	// reflect.DeepEqual on the value shapes the repository uses it for (attribute lists, resource
	// structs): slices by nil-ness, length and elements; structs and arrays field-wise; pointers by
	// pointee; interfaces by dynamic type and value; everything else as ==
	var deepEq func(p *Path, x, y Value, depth int) *Term
	deepEq = func(p *Path, x, y Value, depth int) *Term {
		if depth > 8 {
			p.unsup("reflect.DeepEqual: nesting too deep")
		}
		switch a := x.(type) {
		case IfaceV:
			b, ok := y.(IfaceV)
			if !ok {
				p.unsup("reflect.DeepEqual iface vs %T", y)
			}
			if a.t == nil || b.t == nil {
				return mkBool(a.t == nil && b.t == nil)
			}
			if !types.Identical(a.t, b.t) {
				return tFalse
			}
			return deepEq(p, a.v, b.v, depth+1)
		case SliceV:
			b, ok := y.(SliceV)
			if !ok {
				p.unsup("reflect.DeepEqual slice vs %T", y)
			}
			if (a.c == nil) != (b.c == nil) || a.len != b.len {
				return tFalse
			}
			if a.c == nil {
				return tTrue
			}
			cs := []*Term{tTrue}
			ae, be := a.elems(), b.elems()
			for i := range ae {
				cs = append(cs, deepEq(p, ae[i], be[i], depth+1))
			}
			return tAnd(cs...)
		case StructV:
			b := y.(StructV)
			cs := []*Term{tTrue}
			for i := range a.f {
				cs = append(cs, deepEq(p, a.f[i], b.f[i], depth+1))
			}
			return tAnd(cs...)
		case ArrayV:
			b := y.(ArrayV)
			cs := []*Term{tTrue}
			for i := range a.e {
				cs = append(cs, deepEq(p, a.e[i], b.e[i], depth+1))
			}
			return tAnd(cs...)
		case PtrV:
			b, ok := y.(PtrV)
			if !ok {
				return mkBool(a.c == nil && isNilValue(y))
			}
			if a.c == nil || b.c == nil {
				return mkBool(a.c == nil && b.c == nil)
			}
			if a.c == b.c && samePath(a.path, b.path) {
				return tTrue
			}
			return deepEq(p, a.load(), b.load(), depth+1)
		case MapV, ChanV, FuncV:
			p.unsup("reflect.DeepEqual on %T", x)
		}
		return p.valuesEqual(x, y)
	}
	reg("reflect.DeepEqual", func(p *Path, fn *ssa.Function, a []Value) Value { return deepEq(p, a[0], a[1], 0) })
	// assembly helpers
	reg("ext:internal/bytealg.IndexByteString", func(p *Path, fn *ssa.Function, a []Value) Value {
		return p.indexByte(strBytes(a[0].(StrV)), a[1].(*Term))
	})
	reg("ext:internal/bytealg.IndexByte", func(p *Path, fn *ssa.Function, a []Value) Value {
		return p.indexByte(sliceTerms(a[0].(SliceV)), a[1].(*Term))
	})
	count := func(p *Path, bs []*Term, c *Term) Value {
		n := 0
		for _, b := range bs {
			if p.decide(byteEq(b, c)) {
				n++
			}
		}
		return mkInt64(int64(n))
	}
	reg("ext:internal/bytealg.CountString", func(p *Path, fn *ssa.Function, a []Value) Value {
		return count(p, strBytes(a[0].(StrV)), a[1].(*Term))
	})
	reg("ext:internal/bytealg.Count", func(p *Path, fn *ssa.Function, a []Value) Value {
		return count(p, sliceTerms(a[0].(SliceV)), a[1].(*Term))
	})
	index := func(p *Path, hay, needle []*Term) Value {
		for i := 0; i+len(needle) <= len(hay); i++ {
			cs := make([]*Term, len(needle))
			for j := range needle {
				cs[j] = byteEq(hay[i+j], needle[j])
			}
			if p.decide(tAnd(cs...)) {
				return mkInt64(int64(i))
			}
		}
		return mkInt64(-1)
	}
	reg("ext:internal/bytealg.IndexString", func(p *Path, fn *ssa.Function, a []Value) Value {
		return index(p, strBytes(a[0].(StrV)), strBytes(a[1].(StrV)))
	})
	reg("ext:internal/bytealg.Index", func(p *Path, fn *ssa.Function, a []Value) Value {
		return index(p, sliceTerms(a[0].(SliceV)), sliceTerms(a[1].(SliceV)))
	})
	reg("strings.Index", func(p *Path, fn *ssa.Function, a []Value) Value {
		return index(p, strBytes(a[0].(StrV)), strBytes(a[1].(StrV)))
	})
	reg("bytes.Equal", func(p *Path, fn *ssa.Function, a []Value) Value {
		x, y := sliceTerms(a[0].(SliceV)), sliceTerms(a[1].(SliceV))
		if len(x) != len(y) {
			return tFalse
		}
		cs := make([]*Term, len(x))
		for i := range x {
			cs[i] = byteEq(x[i], y[i])
		}
		return tAnd(cs...)
	})
	reg("bytes.Compare", func(p *Path, fn *ssa.Function, a []Value) Value {
		x, y := sliceTerms(a[0].(SliceV)), sliceTerms(a[1].(SliceV))
		lt := bytesLess(x, y, false)
		gt := bytesLess(y, x, false)
		return tIte(lt, mkInt64(-1), tIte(gt, mkInt64(1), mkInt64(0)))
	})
	reg("bytes.HasPrefix", func(p *Path, fn *ssa.Function, a []Value) Value {
		x, y := sliceTerms(a[0].(SliceV)), sliceTerms(a[1].(SliceV))
		if len(y) > len(x) {
			return tFalse
		}
		cs := make([]*Term, len(y))
		for i := range y {
			cs[i] = byteEq(x[i], y[i])
		}
		return tAnd(cs...)
	})
	reg("strings.HasPrefix", func(p *Path, fn *ssa.Function, a []Value) Value {
		x, y := strBytes(a[0].(StrV)), strBytes(a[1].(StrV))
		if len(y) > len(x) {
			return tFalse
		}
		cs := make([]*Term, len(y))
		for i := range y {
			cs[i] = byteEq(x[i], y[i])
		}
		return tAnd(cs...)
	})
	reg("strings.HasSuffix", func(p *Path, fn *ssa.Function, a []Value) Value {
		x, y := strBytes(a[0].(StrV)), strBytes(a[1].(StrV))
		if len(y) > len(x) {
			return tFalse
		}
		cs := make([]*Term, len(y))
		off := len(x) - len(y)
		for i := range y {
			cs[i] = byteEq(x[off+i], y[i])
		}
		return tAnd(cs...)
	})
	reg("ext:internal/bytealg.Equal", intrinsics["bytes.Equal"])
	reg("ext:runtime.memequal", intrinsics["bytes.Equal"])
}

type SdkErr struct {
	codespace string
	code      int
	desc      string
}

func sliceTerms(s SliceV) []*Term {
	out := make([]*Term, 0, s.len)
	for _, e := range s.elems() {
		out = append(out, e.(*Term))
	}
	return out
}

func (p *Path) indexByte(bs []*Term, c *Term) Value {
	for i, b := range bs {
		if p.decide(byteEq(b, c)) {
			return mkInt64(int64(i))
		}
	}
	return mkInt64(-1)
}

func (p *Path) fmtString(v Value) string {
	s := v.(StrV)
	if c, ok := strConcrete(s); ok {
		return c
	}
	return "%v"
}

func (p *Path) msgOf(s StrV) string {
	if c, ok := strConcrete(s); ok {
		return c
	}
	if s.parts != nil {
		var sb strings.Builder
		for _, q := range s.parts {
			switch {
			case q.dec != nil:
				sb.WriteString("<n>")
			case q.approx:
				sb.WriteString("<?>")
			default:
				sb.WriteString(q.lit)
			}
		}
		return sb.String()
	}
	return "<symbolic>"
}

var _ = big.NewInt

// ---------- opaque object method dispatch ----------

func (p *Path) invokeOpaque(ov OpaqueV, method string, args []Value) (Value, bool) {
	switch ov.kind {
	case "error", "runtimeError", "sentinel":
		if method == "Error" {
			switch d := ov.data.(type) {
			case *ErrObj:
				return StrV{s: d.msg}, true
			case string:
				return StrV{s: d}, true
			}
		}
		if method == "Unwrap" || method == "Cause" {
			if eo, ok := ov.data.(*ErrObj); ok && eo.cause != nil {
				return eo.cause, true
			}
			return IfaceV{}, true
		}
	}
	if h, ok := opaqueMethods[ov.kind+"."+method]; ok {
		return h(p, ov, args), true
	}
	if ov.kind == "logger" || ov.kind == "opaqueinit" || ov.kind == "telemetry" {
		return p.loggerCall(method, ov), true
	}
	p.unsup("method %s on opaque %s", method, ov.kind)
	return nil, false
}

var opaqueMethods = map[string]func(p *Path, ov OpaqueV, args []Value) Value{}

func (p *Path) loggerCall(method string, ov OpaqueV) Value {
	switch method {
	case "With":
		return IfaceV{t: opaqueType, v: ov}
	}
	return nil
}

func opaqueImplements(ov OpaqueV, it *types.Interface) (bool, bool) {
	switch ov.kind {
	case "error", "runtimeError", "sentinel":
		// implements error (and interfaces with only Error/Unwrap/Cause)
		for i := 0; i < it.NumMethods(); i++ {
			switch it.Method(i).Name() {
			case "Error":
			case "Unwrap", "Cause":
				if eo, ok := ov.data.(*ErrObj); !ok || eo.cause == nil {
					return false, true
				}
			default:
				return false, true
			}
		}
		return true, true
	}
	return true, true
}

func (p *Path) callBoundIntrinsic(f FuncV, args []Value) Value {
	if strings.HasPrefix(f.intr, "invoke:") {
		tv := f.recv.(TupleV)
		return p.invoke(tv[0], tv[1].(*types.Func), args, nil)
	}
	if h, ok := boundIntrinsics[f.intr]; ok {
		return h(p, f.recv, args)
	}
	p.unsup("bound intrinsic %s", f.intr)
	return nil
}

var boundIntrinsics = map[string]func(p *Path, recv Value, args []Value) Value{}

// sort.Slice / sort.SliceStable: the real sorting algorithms of package sort are executed
// from SSA (pdqsort_func / stable_func with the caller's less closure); only the
// reflection-built swapper is replaced by an engine swap of two slice cells.
func init() {
	boundIntrinsics["sliceswap"] = func(p *Path, recv Value, a []Value) Value {
		s := recv.(SliceV)
		i := p.concreteInt(a[0], "swap i")
		j := p.concreteInt(a[1], "swap j")
		if i < 0 || j < 0 || i >= s.len || j >= s.len {
			p.throwRuntime("swap index out of range")
		}
		vi, vj := s.get(i), s.get(j)
		s.elemPtr(i).store(vj)
		s.elemPtr(j).store(vi)
		return nil
	}
	sortWith := func(algo string) Intrinsic {
		return func(p *Path, fn *ssa.Function, a []Value) Value {
			iv := a[0].(IfaceV)
			s, ok := iv.v.(SliceV)
			if !ok {
				p.unsup("sort.Slice on %T", iv.v)
			}
			pkg := p.eng.prog.ImportedPackage("sort")
			ls := StructV{f: []Value{a[1], FuncV{intr: "sliceswap", recv: s}}}
			if algo == "stable" {
				p.callFunction(pkg.Func("stable_func"), []Value{ls, mkInt64(int64(s.len))}, nil, nil)
			} else {
				limit := 0
				for n := s.len; n > 0; n >>= 1 {
					limit++
				}
				p.callFunction(pkg.Func("pdqsort_func"), []Value{ls, mkInt64(0), mkInt64(int64(s.len)), mkInt64(int64(limit))}, nil, nil)
			}
			return nil
		}
	}
	reg("sort.Slice", sortWith("pdq"))
	reg("sort.SliceStable", sortWith("stable"))
}

// regexp: patterns are compiled natively in the engine and matched on concrete strings only.
func init() {
	compile := func(p *Path, fn *ssa.Function, a []Value) Value {
		pat := p.strArg(a[0])
		re, err := regexp.Compile(pat)
		if err != nil {
			p.throw(StrV{s: "regexp: " + err.Error()}, "regexp.MustCompile")
		}
		return PtrV{c: p.newCell(OpaqueV{kind: "regexp", data: re}, nil)}
	}
	reg("regexp.MustCompile", compile)
	reg("regexp.Compile", func(p *Path, fn *ssa.Function, a []Value) Value { return TupleV{compile(p, fn, a), IfaceV{}} })
	reg("(*regexp.Regexp).MatchString", func(p *Path, fn *ssa.Function, a []Value) Value {
		ov, _ := a[0].(PtrV).load().(OpaqueV)
		re, isRe := ov.data.(*regexp.Regexp)
		if !isRe {
			p.unsup("regexp object of an opaque package without a known pattern")
		}
		s, ok := strConcrete(a[1].(StrV))
		if !ok {
			p.unsup("regexp match on a symbolic string (pattern %s)", re.String())
		}
		return mkBool(re.MatchString(s))
	})
	reg("(*regexp.Regexp).String", func(p *Path, fn *ssa.Function, a []Value) Value {
		return StrV{s: a[0].(PtrV).load().(OpaqueV).data.(*regexp.Regexp).String()}
	})
}

func init() {
	ident := func(p *Path, fn *ssa.Function, a []Value) Value { return a[0] }
	reg("strings.noescape", ident)
	reg("internal/abi.NoEscape", ident)
	reg("bytes.noescape", ident)
	reg("(*strings.Builder).copyCheck", func(p *Path, fn *ssa.Function, a []Value) Value { return nil })
}

func init() {
	reg("ext:internal/bytealg.MakeNoZero", func(p *Path, fn *ssa.Function, a []Value) Value {
		n := p.concreteInt(a[0], "MakeNoZero n")
		return p.makeSlice(types.Typ[types.Uint8], n, n)
	})
	reg("unsafe.String", func(p *Path, fn *ssa.Function, a []Value) Value { p.unsup("unsafe.String"); return nil })
}

// retry.Do: the retried function is called until it succeeds, at most 3 times (delays are not modelled)
func init() {
	reg("github.com/avast/retry-go.Do", func(p *Path, fn *ssa.Function, a []Value) Value {
		var err Value = IfaceV{}
		for i := 0; i < 3; i++ {
			err = p.callValue(a[0], nil, nil, nil)
			if isNilValue(err) {
				return IfaceV{}
			}
		}
		return err
	})
}

// partialIntrinsics handle only some argument shapes; otherwise the real body runs.
var partialIntrinsics = map[string]func(p *Path, fn *ssa.Function, a []Value) (Value, bool){}

func init() {
	// strings.Split of lazily formatted text ("%v/%v/%s" of symbolic numbers): the decimal rendering
	// of an integer contains only digits and '-', so a separator made of other bytes can only occur
	// inside the literal pieces
	partialIntrinsics["strings.Split"] = func(p *Path, fn *ssa.Function, a []Value) (Value, bool) {
		s, ok := a[0].(StrV)
		if !ok || s.parts == nil {
			return nil, false
		}
		sep, ok := strConcrete(a[1].(StrV))
		if !ok || sep == "" {
			return nil, false
		}
		for _, c := range sep {
			if c == '-' || (c >= '0' && c <= '9') {
				return nil, false
			}
		}
		var out []Value
		var cur []StrPart
		flush := func() {
			v := StrV{parts: cur}
			allLit := true
			lit := ""
			for _, q := range cur {
				if q.dec != nil || q.approx {
					allLit = false
				}
				lit += q.lit
			}
			if allLit {
				v = StrV{s: lit}
			}
			out = append(out, v)
			cur = nil
		}
		for _, q := range s.parts {
			if q.approx {
				return nil, false
			}
			if q.dec != nil {
				cur = append(cur, q)
				continue
			}
			pieces := strings.Split(q.lit, sep)
			for i, piece := range pieces {
				if i > 0 {
					flush()
				}
				if piece != "" {
					cur = append(cur, StrPart{lit: piece})
				}
			}
		}
		flush()
		return p.sliceFrom(out), true
	}
}
