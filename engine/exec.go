package main

import (
	"fmt"
	"go/constant"
	"go/token"
	"go/types"
	"math/big"
	"os"
	"strings"
	"sync"

	"golang.org/x/tools/go/ssa"
)

var debugSMT = os.Getenv("SYMGO_DEBUG_SMT") != ""
var debugExec = os.Getenv("SYMGO_DEBUG_EXEC") != ""

type unsupported struct{ msg string }
type pathAbort struct{ kind string } // "infeasible", "done", "unwind", "blocked"

// goPanic is a panic of the program under test.
type goPanic struct {
	val   Value
	where string
}

type deferred struct {
	fn   Value
	args []Value
	call *ssa.CallCommon
}

type Frame struct {
	fn       *ssa.Function
	env      map[ssa.Value]Value
	defers   []deferred
	result   Value
	panicking *goPanic
	recovered bool
	caller   *Frame
	loops    map[*ssa.BasicBlock]int
}

var buildMu sync.Mutex
var builtPkgs sync.Map // *ssa.Package -> true once Build() has RETURNED

// ensureBuilt builds the SSA of fn's package on first use.  The fast path must not look at
// fn.Blocks: while one worker is inside Package.Build the blocks of its functions exist but are
// still being rewritten (nil instructions), and another worker must not start executing them.
func ensureBuilt(fn *ssa.Function) {
	pkg := fn.Pkg
	if pkg == nil {
		if o := fn.Origin(); o != nil {
			pkg = o.Pkg
		}
	}
	if pkg == nil {
		return
	}
	if _, ok := builtPkgs.Load(pkg); ok {
		return
	}
	buildMu.Lock()
	defer buildMu.Unlock()
	if _, ok := builtPkgs.Load(pkg); ok {
		return
	}
	pkg.Build()
	builtPkgs.Store(pkg, true)
}

func (p *Path) unsup(format string, a ...interface{}) {
	panic(unsupported{fmt.Sprintf(format, a...)})
}

// ---------- operand evaluation ----------

func (p *Path) constValue(c *ssa.Const) Value {
	t := c.Type()
	if c.Value == nil {
		return zeroValue(t)
	}
	switch u := t.Underlying().(type) {
	case *types.Basic:
		switch {
		case u.Info()&types.IsBoolean != 0:
			return mkBool(constant.BoolVal(c.Value))
		case u.Info()&types.IsInteger != 0:
			v := constant.ToInt(c.Value)
			bi, ok := new(big.Int).SetString(v.ExactString(), 10)
			if !ok {
				p.unsup("int const %v", c)
			}
			return mkInt(bi)
		case u.Info()&types.IsFloat != 0:
			f, _ := constant.Float64Val(c.Value)
			return fpConst(f)
		case u.Info()&types.IsString != 0:
			return StrV{s: constant.StringVal(c.Value)}
		}
	}
	p.unsup("const %v of type %v", c, t)
	return nil
}

func (p *Path) eval(fr *Frame, v ssa.Value) Value {
	switch x := v.(type) {
	case *ssa.Const:
		return p.constValue(x)
	case *ssa.Global:
		return PtrV{c: p.globalCell(x)}
	case *ssa.Function:
		return FuncV{fn: x}
	case *ssa.Builtin:
		return FuncV{intr: "builtin:" + x.Name()}
	}
	r, ok := fr.env[v]
	if !ok {
		p.unsup("unbound SSA value %s in %s", v.Name(), fr.fn)
	}
	return r
}

// ---------- calls ----------

func (p *Path) callFunction(fn *ssa.Function, args []Value, binds []Value, caller *Frame) Value {
	if in, ok := lookupIntrinsic(fn); ok {
		return in(p, fn, args)
	}
	if pin, ok := partialIntrinsics[fn.String()]; ok {
		if v, handled := pin(p, fn, args); handled {
			return v
		}
	}
	if p.stubs != nil && fn.Parent() == nil {
		if s, ok := p.stubs[fn.Name()]; ok && fn.Signature.Recv() == nil {
			return p.callValue(s, args, caller, nil)
		}
		// qualified names: "import/path.Func", "(*import/path.T).Method" (receiver = first argument)
		if s, ok := p.stubs[fn.String()]; ok {
			return p.callValue(s, args, caller, nil)
		}
	}
	if fn.Synthetic == "package initializer" {
		if fn.Pkg != nil && p.eng.transparent(fn.Pkg.Pkg.Path()) {
			p.ensureInit(fn.Pkg)
		}
		return nil
	}
	if p.inInit > 0 && fn.Pkg != nil && !p.eng.transparent(fn.Pkg.Pkg.Path()) && !initExecutable(fn) {
		return p.opaqueResult(fn)
	}
	ensureBuilt(fn)
	if fn.Blocks == nil {
		if in, ok := lookupExternal(fn); ok {
			return in(p, fn, args)
		}
		p.unsup("no body: %s", fn.String())
	}
	p.depth++
	if p.depth > 400 {
		p.unsup("call depth exceeded at %s", fn)
	}
	defer func() { p.depth-- }()
	p.noteFunc(fn)
	fr := &Frame{fn: fn, env: make(map[ssa.Value]Value, 32), caller: caller}
	for i, prm := range fn.Params {
		fr.env[prm] = args[i]
	}
	for i, fv := range fn.FreeVars {
		fr.env[fv] = binds[i]
	}
	return p.runFrame(fr)
}

func (p *Path) runFrame(fr *Frame) (ret Value) {
	hasRecover := fr.fn.Recover != nil
	// a Go-level panic of the program under test unwinds through engine frames as
	// a Go panic(*goPanic); frames with defers intercept it.
	defer func() {
		if r := recover(); r != nil {
			gp, ok := r.(*goPanic)
			if !ok {
				panic(r)
			}
			if len(fr.defers) == 0 {
				panic(gp)
			}
			fr.panicking = gp
			p.runDefers(fr)
			if fr.panicking != nil {
				panic(fr.panicking)
			}
			// recovered: function returns its named results via Recover block, or zero values
			if hasRecover {
				ret = p.execFrom(fr, fr.fn.Recover)
			} else {
				ret = p.zeroResults(fr.fn)
			}
		}
	}()
	return p.execFrom(fr, fr.fn.Blocks[0])
}

func (p *Path) zeroResults(fn *ssa.Function) Value {
	res := fn.Signature.Results()
	switch res.Len() {
	case 0:
		return nil
	case 1:
		return zeroValue(res.At(0).Type())
	}
	tv := make(TupleV, res.Len())
	for i := range tv {
		tv[i] = zeroValue(res.At(i).Type())
	}
	return tv
}

func (p *Path) runDefers(fr *Frame) {
	for len(fr.defers) > 0 {
		d := fr.defers[len(fr.defers)-1]
		fr.defers = fr.defers[:len(fr.defers)-1]
		func() {
			defer func() {
				if r := recover(); r != nil {
					gp, ok := r.(*goPanic)
					if !ok {
						panic(r)
					}
					fr.panicking = gp // a new panic replaces the old one
				}
			}()
			saved := p.deferFrame
			p.deferFrame = fr
			defer func() { p.deferFrame = saved }()
			p.callValue(d.fn, d.args, fr, d.call)
		}()
	}
}

func (p *Path) callValue(fv Value, args []Value, caller *Frame, cc *ssa.CallCommon) Value {
	switch f := fv.(type) {
	case FuncV:
		if f.fn != nil {
			return p.callFunction(f.fn, args, f.binds, caller)
		}
		if strings.HasPrefix(f.intr, "builtin:") {
			return p.callBuiltin(f.intr[8:], args, caller, cc)
		}
		if f.intr != "" {
			return p.callBoundIntrinsic(f, args)
		}
		p.throw(StrV{s: "call of nil func"}, "nil func")
	}
	p.unsup("call of %T", fv)
	return nil
}

func (p *Path) throw(v Value, where string) {
	panic(&goPanic{val: v, where: where})
}

func (p *Path) throwRuntime(msg string) {
	p.throw(IfaceV{t: types.Universe.Lookup("error").Type(), v: OpaqueV{kind: "runtimeError", data: msg}}, msg)
}

// doCall evaluates an ssa.CallCommon.
func (p *Path) doCall(fr *Frame, cc *ssa.CallCommon) Value {
	args := make([]Value, 0, len(cc.Args)+1)
	if cc.IsInvoke() {
		recv := p.eval(fr, cc.Value)
		for _, a := range cc.Args {
			args = append(args, p.eval(fr, a))
		}
		return p.invoke(recv, cc.Method, args, fr)
	}
	for _, a := range cc.Args {
		args = append(args, p.eval(fr, a))
	}
	switch callee := cc.Value.(type) {
	case *ssa.Function:
		return p.callFunction(callee, args, nil, fr)
	case *ssa.Builtin:
		return p.callBuiltin(callee.Name(), args, fr, cc)
	}
	fv := p.eval(fr, cc.Value)
	return p.callValue(fv, args, fr, cc)
}

func (p *Path) invoke(recv Value, m *types.Func, args []Value, fr *Frame) Value {
	iv, ok := recv.(IfaceV)
	if !ok {
		p.unsup("invoke on %T", recv)
	}
	if iv.t == nil {
		p.throwRuntime("invalid memory address or nil pointer dereference (nil interface method call " + m.Name() + ")")
	}
	if ov, ok := iv.v.(OpaqueV); ok {
		if r, handled := p.invokeOpaque(ov, m.Name(), args); handled {
			return r
		}
	}
	fn := p.eng.prog.LookupMethod(iv.t, m.Pkg(), m.Name())
	if fn == nil {
		p.unsup("method %s not found on %v", m.Name(), iv.t)
	}
	return p.callFunction(fn, append([]Value{iv.v}, args...), nil, fr)
}

// ---------- main loop ----------

func (p *Path) execFrom(fr *Frame, start *ssa.BasicBlock) Value {
	block := start
	var prev *ssa.BasicBlock
	for {
		p.steps++
		if p.steps > p.eng.maxSteps {
			panic(pathAbort{"unwind"})
		}
		var next *ssa.BasicBlock
		// phis first (parallel assignment)
		nphi := 0
		for _, ins := range block.Instrs {
			if _, ok := ins.(*ssa.Phi); ok {
				nphi++
			} else {
				break
			}
		}
		if nphi > 0 {
			idx := -1
			for i, pr := range block.Preds {
				if pr == prev {
					idx = i
					break
				}
			}
			vals := make([]Value, nphi)
			for i := 0; i < nphi; i++ {
				vals[i] = p.eval(fr, block.Instrs[i].(*ssa.Phi).Edges[idx])
			}
			for i := 0; i < nphi; i++ {
				fr.env[block.Instrs[i].(*ssa.Phi)] = vals[i]
			}
		}
		for _, ins := range block.Instrs[nphi:] {
			p.curFn, p.curIns = fr.fn, ins
			if debugExec {
				fmt.Fprintf(os.Stderr, "%s%s: %s\n", strings.Repeat(" ", p.depth), fr.fn.Name(), ins)
			}
			switch x := ins.(type) {
			case *ssa.Jump:
				next = block.Succs[0]
			case *ssa.If:
				c := p.eval(fr, x.Cond).(*Term)
				if p.decide(c) {
					next = block.Succs[0]
				} else {
					next = block.Succs[1]
				}
			case *ssa.Return:
				var res Value
				switch len(x.Results) {
				case 0:
				case 1:
					res = p.eval(fr, x.Results[0])
				default:
					tv := make(TupleV, len(x.Results))
					for i, r := range x.Results {
						tv[i] = p.eval(fr, r)
					}
					res = tv
				}
				return res
			case *ssa.Panic:
				p.throw(p.eval(fr, x.X), p.eng.prog.Fset.Position(x.Pos()).String())
			case *ssa.RunDefers:
				p.runDefers(fr)
				if fr.panicking != nil {
					gp := fr.panicking
					fr.panicking = nil
					panic(gp)
				}
			default:
				p.execInstr(fr, ins)
			}
		}
		if next == nil {
			p.unsup("block without terminator in %s", fr.fn)
		}
		if next.Index <= block.Index {
			p.loopIter(fr, next)
		}
		prev, block = block, next
	}
}

func (p *Path) execInstr(fr *Frame, ins ssa.Instruction) {
	switch x := ins.(type) {
	case *ssa.DebugRef:
	case *ssa.Alloc:
		c := p.newCell(zeroValue(deref(x.Type())), deref(x.Type()))
		fr.env[x] = PtrV{c: c}
	case *ssa.Store:
		addr := p.eval(fr, x.Addr).(PtrV)
		if addr.c == nil {
			p.throwRuntime("nil pointer dereference (store)")
		}
		if addr.sym != nil {
			p.unsup("store through a symbolic index")
		}
		addr.store(p.eval(fr, x.Val))
	case *ssa.UnOp:
		fr.env[x] = p.unop(fr, x)
	case *ssa.BinOp:
		fr.env[x] = p.binop(x.Op, p.eval(fr, x.X), p.eval(fr, x.Y), x.X.Type(), x.Type())
	case *ssa.Call:
		fr.env[x] = p.doCall(fr, &x.Call)
	case *ssa.Defer:
		var fv Value
		var args []Value
		cc := &x.Call
		if cc.IsInvoke() {
			recv := p.eval(fr, cc.Value)
			m := cc.Method
			for _, a := range cc.Args {
				args = append(args, p.eval(fr, a))
			}
			fv = FuncV{intr: "invoke:" + m.Name(), recv: TupleV{recv, m}}
		} else {
			fv = p.eval(fr, cc.Value)
			for _, a := range cc.Args {
				args = append(args, p.eval(fr, a))
			}
		}
		fr.defers = append(fr.defers, deferred{fn: fv, args: args, call: cc})
	case *ssa.Go:
		p.doGo(fr, x)
	case *ssa.FieldAddr:
		ptr := p.eval(fr, x.X).(PtrV)
		if ptr.c == nil {
			p.throwRuntime("nil pointer dereference (field address)")
		}
		fr.env[x] = p.fieldAddr(ptr, x.Field, deref(x.X.Type()))
	case *ssa.Field:
		fr.env[x] = p.fieldOf(p.eval(fr, x.X), x.Field, x.X.Type())
	case *ssa.IndexAddr:
		fr.env[x] = p.indexAddr(fr, x)
	case *ssa.Index:
		fr.env[x] = p.index(fr, x)
	case *ssa.Lookup:
		fr.env[x] = p.lookup(fr, x)
	case *ssa.MapUpdate:
		m := p.eval(fr, x.Map).(MapV)
		if m.m == nil {
			p.throwRuntime("assignment to entry in nil map")
		}
		p.mapSet(m.m, p.eval(fr, x.Key), p.eval(fr, x.Value))
	case *ssa.MakeMap:
		mt := x.Type().Underlying().(*types.Map)
		fr.env[x] = MapV{m: p.newMap(mt.Key(), mt.Elem())}
	case *ssa.MakeSlice:
		n := p.concreteInt(p.eval(fr, x.Len), "make len")
		c := p.concreteInt(p.eval(fr, x.Cap), "make cap")
		et := x.Type().Underlying().(*types.Slice).Elem()
		fr.env[x] = p.makeSlice(et, n, c)
	case *ssa.MakeChan:
		n := p.concreteInt(p.eval(fr, x.Size), "chan size")
		fr.env[x] = ChanV{ch: p.newChan(n, x.Type().Underlying().(*types.Chan).Elem())}
	case *ssa.MakeClosure:
		binds := make([]Value, len(x.Bindings))
		for i, b := range x.Bindings {
			binds[i] = p.eval(fr, b)
		}
		fr.env[x] = FuncV{fn: x.Fn.(*ssa.Function), binds: binds}
	case *ssa.MakeInterface:
		fr.env[x] = IfaceV{t: x.X.Type(), v: p.eval(fr, x.X)}
	case *ssa.ChangeInterface:
		fr.env[x] = p.eval(fr, x.X)
	case *ssa.ChangeType:
		fr.env[x] = p.eval(fr, x.X)
	case *ssa.Convert:
		fr.env[x] = p.convert(p.eval(fr, x.X), x.X.Type(), x.Type())
	case *ssa.MultiConvert:
		fr.env[x] = p.convert(p.eval(fr, x.X), x.X.Type(), x.Type())
	case *ssa.SliceToArrayPointer:
		s := p.eval(fr, x.X).(SliceV)
		fr.env[x] = PtrV{c: s.c, path: s.path} // only whole-array views supported
		if s.off != 0 {
			p.unsup("SliceToArrayPointer with offset")
		}
	case *ssa.Slice:
		fr.env[x] = p.sliceOp(fr, x)
	case *ssa.TypeAssert:
		fr.env[x] = p.typeAssert(fr, x)
	case *ssa.Extract:
		fr.env[x] = p.eval(fr, x.Tuple).(TupleV)[x.Index]
	case *ssa.Range:
		fr.env[x] = p.rangeInit(fr, x)
	case *ssa.Next:
		fr.env[x] = p.rangeNext(fr, x)
	case *ssa.Select:
		fr.env[x] = p.selectOp(fr, x)
	case *ssa.Send:
		p.chanSend(p.eval(fr, x.Chan).(ChanV), p.eval(fr, x.X))
	default:
		p.unsup("instruction %T: %s", ins, ins)
	}
}

func deref(t types.Type) types.Type {
	if pt, ok := t.Underlying().(*types.Pointer); ok {
		return pt.Elem()
	}
	panic(unsupported{"deref of non-pointer " + t.String()})
}

func (p *Path) newCell(v Value, t types.Type) *Cell {
	p.cellSeq++
	return &Cell{v: v, id: p.cellSeq, typ: t}
}

func (p *Path) newMap(kt, vt types.Type) *MapObj {
	p.cellSeq++
	return &MapObj{id: p.cellSeq, kt: kt, vt: vt}
}

func (p *Path) makeSlice(et types.Type, n, c int) SliceV {
	if c < n {
		c = n
	}
	e := make([]Value, c)
	if c > 0 {
		z := zeroValue(et)
		for i := range e {
			e[i] = z
		}
	}
	cell := p.newCell(ArrayV{e}, nil)
	return SliceV{c: cell, len: n, cap: c}
}

func (p *Path) sliceFrom(vals []Value) SliceV {
	e := make([]Value, len(vals))
	copy(e, vals)
	return SliceV{c: p.newCell(ArrayV{e}, nil), len: len(e), cap: len(e)}
}

func (p *Path) concreteInt(v Value, what string) int {
	t, ok := v.(*Term)
	if !ok {
		p.unsup("%s: not an int (%T)", what, v)
	}
	if t.cst {
		return int(t.ival.Int64())
	}
	p.unsup("%s: symbolic value where a concrete one is required", what)
	return 0
}

// sdk.Int is carried as a bare BigV, although its declared underlying type is
// struct{i *big.Int}; field access to it never happens because every method of
// the type is an intrinsic.
func (p *Path) fieldAddr(ptr PtrV, field int, st types.Type) Value {
	if isSdkIntType(st) {
		p.unsup("field address into sdk.Int")
	}
	return ptr.sub(field)
}

func (p *Path) fieldOf(v Value, field int, t types.Type) Value {
	s, ok := v.(StructV)
	if !ok {
		p.unsup("field of %T (%v)", v, t)
	}
	return s.f[field]
}

func (p *Path) unop(fr *Frame, x *ssa.UnOp) Value {
	v := p.eval(fr, x.X)
	switch x.Op {
	case token.MUL:
		ptr, ok := v.(PtrV)
		if !ok {
			p.unsup("deref of %T", v)
		}
		if ptr.c == nil {
			p.throwRuntime("invalid memory address or nil pointer dereference")
		}
		if ptr.sym != nil {
			return p.symLoad(ptr)
		}
		return ptr.load()
	case token.NOT:
		return tNot(v.(*Term))
	case token.SUB:
		t := v.(*Term)
		if t.kind == SFP {
			return mkApp(SFP, 0, "fp.neg", t)
		}
		w, signed := intInfo(x.Type())
		if t.kind == SBV {
			return mkApp(SBV, w, "bvneg", t)
		}
		return wrapInt(iNeg(t), w, signed)
	case token.XOR:
		t := v.(*Term)
		w, signed := intInfo(x.Type())
		if t.kind == SInt {
			if t.cst {
				r := new(big.Int).Not(t.ival)
				return wrapInt(mkInt(r), w, signed)
			}
			// ^x = -x-1 (signed) ; 2^w-1-x (unsigned)
			if signed {
				return iSub(iNeg(t), mkInt64(1))
			}
			return iSub(mkInt(new(big.Int).Sub(pow2(w), big.NewInt(1))), t)
		}
		return mkApp(SBV, w, "bvnot", t)
	case token.ARROW:
		return p.chanRecv(v.(ChanV), x.CommaOk)
	}
	p.unsup("unop %v", x.Op)
	return nil
}

func intInfo(t types.Type) (w int, signed bool) {
	b, ok := t.Underlying().(*types.Basic)
	if !ok {
		panic(unsupported{"intInfo of " + t.String()})
	}
	switch b.Kind() {
	case types.Int8:
		return 8, true
	case types.Int16:
		return 16, true
	case types.Int32, types.UntypedRune:
		return 32, true
	case types.Int64, types.Int, types.UntypedInt:
		return 64, true
	case types.Uint8:
		return 8, false
	case types.Uint16:
		return 16, false
	case types.Uint32:
		return 32, false
	case types.Uint64, types.Uint, types.Uintptr:
		return 64, false
	}
	panic(unsupported{"intInfo of " + t.String()})
}

func isIntType(t types.Type) bool {
	b, ok := t.Underlying().(*types.Basic)
	return ok && b.Info()&types.IsInteger != 0
}
func isFloatType(t types.Type) bool {
	b, ok := t.Underlying().(*types.Basic)
	return ok && b.Info()&types.IsFloat != 0
}
func isStringType(t types.Type) bool {
	b, ok := t.Underlying().(*types.Basic)
	return ok && b.Info()&types.IsString != 0
}
func isBoolType(t types.Type) bool {
	b, ok := t.Underlying().(*types.Basic)
	return ok && b.Info()&types.IsBoolean != 0
}
