package main

import (
	"fmt"
	"math/big"
	"strings"
)

// SMT terms.  Sorts: Bool, Int (mathematical), BV(w), FP64.
// Go fixed-width integers are carried either as Int-sorted terms (value kept
// inside the Go type's range by explicit wrapping) or as BV-sorted terms; the
// interpreter converts at operations (see arith.go).

type SortKind int

const (
	SBool SortKind = iota
	SInt
	SBV
	SFP
)

type Term struct {
	kind  SortKind
	w     int // BV width
	op    string
	args  []*Term
	cst   bool
	bval  bool
	ival  *big.Int // Int const value / BV const (unsigned)
	name  string   // variable name
	size  int
	defID int // >0 once defined in solver for epoch defEp
	defEp int
	owner *Solver
}

var (
	tTrue  = &Term{kind: SBool, cst: true, bval: true, size: 1}
	tFalse = &Term{kind: SBool, cst: true, bval: false, size: 1}
)

func mkBool(b bool) *Term {
	if b {
		return tTrue
	}
	return tFalse
}

func mkInt(v *big.Int) *Term { return &Term{kind: SInt, cst: true, ival: new(big.Int).Set(v), size: 1} }
func mkInt64(v int64) *Term  { return mkInt(big.NewInt(v)) }
func mkBV(v *big.Int, w int) *Term {
	m := new(big.Int).Lsh(big.NewInt(1), uint(w))
	x := new(big.Int).Mod(v, m)
	return &Term{kind: SBV, w: w, cst: true, ival: x, size: 1}
}
func mkVar(name string, k SortKind, w int) *Term {
	return &Term{kind: k, w: w, name: name, size: 1}
}

func mkApp(k SortKind, w int, op string, args ...*Term) *Term {
	sz := 1
	for _, a := range args {
		sz += a.size
		if sz > 1<<30 {
			sz = 1 << 30
		}
	}
	return &Term{kind: k, w: w, op: op, args: args, size: sz}
}

func (t *Term) isConst() bool { return t.cst }

func (t *Term) sortString() string {
	switch t.kind {
	case SBool:
		return "Bool"
	case SInt:
		return "Int"
	case SBV:
		return fmt.Sprintf("(_ BitVec %d)", t.w)
	case SFP:
		return "(_ FloatingPoint 11 53)"
	}
	return "?"
}

func smtInt(v *big.Int) string {
	if v.Sign() < 0 {
		return "(- " + new(big.Int).Neg(v).String() + ")"
	}
	return v.String()
}

// ---------- boolean constructors with folding ----------

func tNot(a *Term) *Term {
	if a.cst {
		return mkBool(!a.bval)
	}
	if a.op == "not" {
		return a.args[0]
	}
	return mkApp(SBool, 0, "not", a)
}

func tAnd(xs ...*Term) *Term {
	var out []*Term
	for _, x := range xs {
		if x.cst {
			if !x.bval {
				return tFalse
			}
			continue
		}
		out = append(out, x)
	}
	switch len(out) {
	case 0:
		return tTrue
	case 1:
		return out[0]
	}
	return mkApp(SBool, 0, "and", out...)
}

func tOr(xs ...*Term) *Term {
	var out []*Term
	for _, x := range xs {
		if x.cst {
			if x.bval {
				return tTrue
			}
			continue
		}
		out = append(out, x)
	}
	switch len(out) {
	case 0:
		return tFalse
	case 1:
		return out[0]
	}
	return mkApp(SBool, 0, "or", out...)
}

func tImplies(a, b *Term) *Term { return tOr(tNot(a), b) }

func tIte(c, a, b *Term) *Term {
	if c.cst {
		if c.bval {
			return a
		}
		return b
	}
	if a == b {
		return a
	}
	if a.kind == SBool {
		if a.cst && !b.cst {
			if a.bval {
				return tOr(c, b)
			}
			return tAnd(tNot(c), b)
		}
		if b.cst && !a.cst {
			if b.bval {
				return tOr(tNot(c), a)
			}
			return tAnd(c, a)
		}
		if a.cst && b.cst {
			if a.bval == b.bval {
				return a
			}
			if a.bval {
				return c
			}
			return tNot(c)
		}
	}
	if a.cst && b.cst && a.kind == b.kind && a.kind != SBool && a.kind != SFP && a.ival.Cmp(b.ival) == 0 {
		return a
	}
	a, b = unify(a, b)
	return mkApp(a.kind, a.w, "ite", c, a, b)
}

// unify brings an Int-sorted and BV-sorted Go integer to the same sort (Int).
func unify(a, b *Term) (*Term, *Term) {
	if a.kind == b.kind {
		return a, b
	}
	if a.kind == SBV && b.kind == SInt {
		if b.cst {
			return a, mkBV(b.ival, a.w)
		}
		panic("unify: mixed BV/Int without signedness; convert before")
	}
	if a.kind == SInt && b.kind == SBV {
		if a.cst {
			return mkBV(a.ival, b.w), b
		}
		panic("unify: mixed BV/Int without signedness; convert before")
	}
	panic(fmt.Sprintf("unify: sorts %v %v", a.kind, b.kind))
}

func tEq(a, b *Term) *Term {
	if a == b {
		return tTrue
	}
	if a.kind == SBool && b.kind == SBool {
		if a.cst {
			if a.bval {
				return b
			}
			return tNot(b)
		}
		if b.cst {
			if b.bval {
				return a
			}
			return tNot(a)
		}
		return mkApp(SBool, 0, "=", a, b)
	}
	a, b = unify(a, b)
	if a.cst && b.cst && a.kind != SFP {
		return mkBool(a.ival.Cmp(b.ival) == 0)
	}
	if a.kind == SInt {
		if r := viewCmp("=", a, b); r != nil {
			return r
		}
	}
	if b.cst && a.op == "ite" && constLeaves(a, 4) {
		return tIte(a.args[0], tEq(a.args[1], b), tEq(a.args[2], b))
	}
	if a.cst && b.op == "ite" && constLeaves(b, 4) {
		return tIte(b.args[0], tEq(b.args[1], a), tEq(b.args[2], a))
	}
	return mkApp(SBool, 0, "=", a, b)
}

func constLeaves(t *Term, depth int) bool {
	if t.cst {
		return true
	}
	if t.op != "ite" || depth == 0 {
		return false
	}
	return constLeaves(t.args[1], depth-1) && constLeaves(t.args[2], depth-1)
}

// ---------- Int (mathematical) ----------

func iAdd(a, b *Term) *Term {
	if a.cst && b.cst {
		return mkInt(new(big.Int).Add(a.ival, b.ival))
	}
	if a.cst && a.ival.Sign() == 0 {
		return b
	}
	if b.cst && b.ival.Sign() == 0 {
		return a
	}
	return mkApp(SInt, 0, "+", a, b)
}
func iSub(a, b *Term) *Term {
	if a.cst && b.cst {
		return mkInt(new(big.Int).Sub(a.ival, b.ival))
	}
	if b.cst && b.ival.Sign() == 0 {
		return a
	}
	if a == b {
		return mkInt64(0)
	}
	return mkApp(SInt, 0, "-", a, b)
}
func iNeg(a *Term) *Term {
	if a.cst {
		return mkInt(new(big.Int).Neg(a.ival))
	}
	return mkApp(SInt, 0, "-", a)
}
func iMul(a, b *Term) *Term {
	if a.cst && b.cst {
		return mkInt(new(big.Int).Mul(a.ival, b.ival))
	}
	if a.cst {
		if a.ival.Sign() == 0 {
			return a
		}
		if a.ival.Cmp(big.NewInt(1)) == 0 {
			return b
		}
	}
	if b.cst {
		if b.ival.Sign() == 0 {
			return b
		}
		if b.ival.Cmp(big.NewInt(1)) == 0 {
			return a
		}
	}
	return mkApp(SInt, 0, "*", a, b)
}

// SMT-LIB div/mod (Euclidean: remainder always >= 0).
func iDivE(a, b *Term) *Term {
	if a.cst && b.cst && b.ival.Sign() != 0 {
		q, _ := new(big.Int).DivMod(a.ival, b.ival, new(big.Int))
		return mkInt(q)
	}
	return mkApp(SInt, 0, "div", a, b)
}
func iModE(a, b *Term) *Term {
	if a.cst && b.cst && b.ival.Sign() != 0 {
		_, m := new(big.Int).DivMod(a.ival, b.ival, new(big.Int))
		return mkInt(m)
	}
	return mkApp(SInt, 0, "mod", a, b)
}

// Truncated division (Go's / and big.Int.Quo); b must be non-zero.
func iQuoT(a, b *Term) *Term {
	if a.cst && b.cst && b.ival.Sign() != 0 {
		return mkInt(new(big.Int).Quo(a.ival, b.ival))
	}
	zero := mkInt64(0)
	// common fast path when signs are syntactically known
	return tIte(iGe(a, zero),
		tIte(iGt(b, zero), iDivE(a, b), iNeg(iDivE(a, iNeg(b)))),
		tIte(iGt(b, zero), iNeg(iDivE(iNeg(a), b)), iDivE(iNeg(a), iNeg(b))))
}
func iRemT(a, b *Term) *Term {
	if a.cst && b.cst && b.ival.Sign() != 0 {
		return mkInt(new(big.Int).Rem(a.ival, b.ival))
	}
	return iSub(a, iMul(b, iQuoT(a, b)))
}

func iCmp(op string, a, b *Term) *Term {
	if r := viewCmp(op, a, b); r != nil {
		return r
	}
	if b.cst && a.op == "ite" && constLeaves(a, 4) {
		return tIte(a.args[0], iCmp(op, a.args[1], b), iCmp(op, a.args[2], b))
	}
	if a.cst && b.cst {
		c := a.ival.Cmp(b.ival)
		switch op {
		case "<":
			return mkBool(c < 0)
		case "<=":
			return mkBool(c <= 0)
		case ">":
			return mkBool(c > 0)
		case ">=":
			return mkBool(c >= 0)
		}
	}
	return mkApp(SBool, 0, op, a, b)
}
func iLt(a, b *Term) *Term { return iCmp("<", a, b) }
func iLe(a, b *Term) *Term { return iCmp("<=", a, b) }
func iGt(a, b *Term) *Term { return iCmp(">", a, b) }
func iGe(a, b *Term) *Term { return iCmp(">=", a, b) }

func pow2(n int) *big.Int { return new(big.Int).Lsh(big.NewInt(1), uint(n)) }

// wrapInt reduces an Int term to the range of a w-bit Go integer.
func wrapInt(a *Term, w int, signed bool) *Term {
	if x, sx, ok := bvView(a); ok {
		switch {
		case x.w == w && sx == signed:
			return a
		case x.w == w && signed:
			return mkApp(SInt, 0, "sbv2int", x)
		case x.w == w:
			return mkApp(SInt, 0, "bv2nat", x)
		case x.w < w && (!sx || signed):
			return a // value fits
		}
	}
	m := pow2(w)
	if a.cst {
		v := new(big.Int).Mod(a.ival, m)
		if signed && v.Cmp(pow2(w-1)) >= 0 {
			v.Sub(v, m)
		}
		return mkInt(v)
	}
	if !signed {
		return iModE(a, mkInt(m))
	}
	h := mkInt(pow2(w - 1))
	return iSub(iModE(iAdd(a, h), mkInt(m)), h)
}

// ---------- BV ----------

func bvBin(op string, a, b *Term) *Term {
	if a.cst && b.cst {
		if r := bvFold(op, a, b); r != nil {
			return r
		}
	}
	return mkApp(SBV, a.w, op, a, b)
}

func toSigned(v *big.Int, w int) *big.Int {
	if v.Cmp(pow2(w-1)) >= 0 {
		return new(big.Int).Sub(v, pow2(w))
	}
	return new(big.Int).Set(v)
}

func bvFold(op string, a, b *Term) *Term {
	w := a.w
	x, y := a.ival, b.ival
	switch op {
	case "bvadd":
		return mkBV(new(big.Int).Add(x, y), w)
	case "bvsub":
		return mkBV(new(big.Int).Sub(x, y), w)
	case "bvmul":
		return mkBV(new(big.Int).Mul(x, y), w)
	case "bvand":
		return mkBV(new(big.Int).And(x, y), w)
	case "bvor":
		return mkBV(new(big.Int).Or(x, y), w)
	case "bvxor":
		return mkBV(new(big.Int).Xor(x, y), w)
	case "bvshl":
		if y.Cmp(big.NewInt(int64(w))) >= 0 {
			return mkBV(big.NewInt(0), w)
		}
		return mkBV(new(big.Int).Lsh(x, uint(y.Int64())), w)
	case "bvlshr":
		if y.Cmp(big.NewInt(int64(w))) >= 0 {
			return mkBV(big.NewInt(0), w)
		}
		return mkBV(new(big.Int).Rsh(x, uint(y.Int64())), w)
	case "bvashr":
		sx := toSigned(x, w)
		sh := uint(w)
		if y.Cmp(big.NewInt(int64(w))) < 0 {
			sh = uint(y.Int64())
		}
		return mkBV(new(big.Int).Rsh(sx, sh), w)
	case "bvudiv":
		if y.Sign() == 0 {
			return nil
		}
		return mkBV(new(big.Int).Quo(x, y), w)
	case "bvurem":
		if y.Sign() == 0 {
			return nil
		}
		return mkBV(new(big.Int).Rem(x, y), w)
	case "bvsdiv":
		if y.Sign() == 0 {
			return nil
		}
		return mkBV(new(big.Int).Quo(toSigned(x, w), toSigned(y, w)), w)
	case "bvsrem":
		if y.Sign() == 0 {
			return nil
		}
		return mkBV(new(big.Int).Rem(toSigned(x, w), toSigned(y, w)), w)
	}
	return nil
}

func bvCmp(op string, a, b *Term) *Term {
	if a.cst && b.cst {
		var c int
		if strings.HasPrefix(op, "bvs") {
			c = toSigned(a.ival, a.w).Cmp(toSigned(b.ival, b.w))
		} else {
			c = a.ival.Cmp(b.ival)
		}
		switch op[3:] {
		case "lt":
			return mkBool(c < 0)
		case "le":
			return mkBool(c <= 0)
		case "gt":
			return mkBool(c > 0)
		case "ge":
			return mkBool(c >= 0)
		}
	}
	return mkApp(SBool, 0, op, a, b)
}

func bvExtract(a *Term, hi, lo int) *Term {
	if a.cst {
		v := new(big.Int).Rsh(a.ival, uint(lo))
		return mkBV(v, hi-lo+1)
	}
	if lo == 0 && hi == a.w-1 {
		return a
	}
	t := mkApp(SBV, hi-lo+1, fmt.Sprintf("(_ extract %d %d)", hi, lo), a)
	return t
}

func bvZeroExt(a *Term, to int) *Term {
	if to == a.w {
		return a
	}
	if a.cst {
		return mkBV(a.ival, to)
	}
	return mkApp(SBV, to, fmt.Sprintf("(_ zero_extend %d)", to-a.w), a)
}
func bvSignExt(a *Term, to int) *Term {
	if to == a.w {
		return a
	}
	if a.cst {
		return mkBV(toSigned(a.ival, a.w), to)
	}
	return mkApp(SBV, to, fmt.Sprintf("(_ sign_extend %d)", to-a.w), a)
}

// conversions between the two integer representations
func bvToInt(a *Term, signed bool) *Term {
	if a.kind == SInt {
		return a
	}
	if a.cst {
		if signed {
			return mkInt(toSigned(a.ival, a.w))
		}
		return mkInt(a.ival)
	}
	if a.op == "int2bv" { // int2bv of an in-range term: inverse
		return wrapInt(a.args[0], a.w, signed)
	}
	if !signed {
		return mkApp(SInt, 0, "bv2nat", a)
	}
	// signed view of a bit-vector: printed as the usual ite, but kept recognisable so that
	// comparisons can be pushed back into the bit-vector domain (see bvView)
	return mkApp(SInt, 0, "sbv2int", a)
}

// bvView recognises Int-sorted terms that are just a (signed/unsigned) reading of a bit-vector.
func bvView(t *Term) (x *Term, signed bool, ok bool) {
	if t.kind != SInt || t.cst || len(t.args) != 1 {
		return nil, false, false
	}
	switch t.op {
	case "bv2nat":
		return t.args[0], false, true
	case "sbv2int":
		return t.args[0], true, true
	}
	return nil, false, false
}

// viewCmp tries to decide/translate a comparison between a bit-vector view and a constant or
// another view of the same width and signedness without leaving the bit-vector theory.
func viewCmp(op string, a, b *Term) *Term {
	xa, sa, oka := bvView(a)
	xb, sb, okb := bvView(b)
	pre := "bvu"
	rng := func(w int, signed bool) (*big.Int, *big.Int) {
		if signed {
			return new(big.Int).Neg(pow2(w - 1)), new(big.Int).Sub(pow2(w-1), big.NewInt(1))
		}
		return big.NewInt(0), new(big.Int).Sub(pow2(w), big.NewInt(1))
	}
	mk := func(x, y *Term, signed bool) *Term {
		if signed {
			pre = "bvs"
		}
		switch op {
		case "<":
			return bvCmp(pre+"lt", x, y)
		case "<=":
			return bvCmp(pre+"le", x, y)
		case ">":
			return bvCmp(pre+"gt", x, y)
		case ">=":
			return bvCmp(pre+"ge", x, y)
		case "=":
			return tEq(x, y)
		}
		return nil
	}
	if oka && okb && sa == sb && xa.w == xb.w {
		return mk(xa, xb, sa)
	}
	if oka && okb && xa.w == xb.w {
		// mixed signedness, same width: a negative signed value is below every unsigned one,
		// otherwise both are compared as unsigned bit patterns
		flip := map[string]string{"<": ">", "<=": ">=", ">": "<", ">=": "<=", "=": "="}
		xs, xu, o := xa, xb, op
		if !sa {
			xs, xu, o = xb, xa, flip[op]
		}
		zero := mkBV(big.NewInt(0), xs.w)
		neg := bvCmp("bvslt", xs, zero)
		switch o {
		case "<":
			return tOr(neg, bvCmp("bvult", xs, xu))
		case "<=":
			return tOr(neg, bvCmp("bvule", xs, xu))
		case ">":
			return tAnd(tNot(neg), bvCmp("bvugt", xs, xu))
		case ">=":
			return tAnd(tNot(neg), bvCmp("bvuge", xs, xu))
		case "=":
			return tAnd(tNot(neg), tEq(xs, xu))
		}
	}
	if oka && b.cst {
		lo, hi := rng(xa.w, sa)
		if b.ival.Cmp(lo) < 0 { // a >= lo > b
			return mkBool(op == ">" || op == ">=")
		}
		if b.ival.Cmp(hi) > 0 {
			return mkBool(op == "<" || op == "<=")
		}
		return mk(xa, mkBV(b.ival, xa.w), sa)
	}
	if okb && a.cst {
		lo, hi := rng(xb.w, sb)
		if a.ival.Cmp(lo) < 0 {
			return mkBool(op == "<" || op == "<=")
		}
		if a.ival.Cmp(hi) > 0 {
			return mkBool(op == ">" || op == ">=")
		}
		return mk(mkBV(a.ival, xb.w), xb, sb)
	}
	return nil
}

func intToBV(a *Term, w int) *Term {
	if x, _, ok := bvView(a); ok && x.w == w {
		return x
	}
	if a.kind == SBV {
		if a.w != w {
			panic("intToBV width")
		}
		return a
	}
	if a.cst {
		return mkBV(a.ival, w)
	}
	t := mkApp(SBV, w, "int2bv", a)
	return t
}

// ---------- printing ----------

func (t *Term) String() string {
	var sb strings.Builder
	t.write(&sb, nil)
	return sb.String()
}

func (t *Term) write(sb *strings.Builder, s *Solver) {
	if s != nil && t.defID > 0 && t.owner == s && t.defEp == s.epoch {
		fmt.Fprintf(sb, "d%d", t.defID)
		return
	}
	if t.cst {
		switch t.kind {
		case SBool:
			if t.bval {
				sb.WriteString("true")
			} else {
				sb.WriteString("false")
			}
		case SInt:
			sb.WriteString(smtInt(t.ival))
		case SBV:
			fmt.Fprintf(sb, "(_ bv%s %d)", t.ival.String(), t.w)
		case SFP:
			sb.WriteString(t.name)
		}
		return
	}
	if t.name != "" {
		sb.WriteString(t.name)
		return
	}
	op := t.op
	if op == "int2bv" {
		op = fmt.Sprintf("(_ int2bv %d)", t.w)
	}
	if op == "sbv2int" {
		x := t.args[0]
		sb.WriteString("(ite (bvslt ")
		x.write(sb, s)
		fmt.Fprintf(sb, " (_ bv0 %d)) (- (bv2nat ", x.w)
		x.write(sb, s)
		sb.WriteString(") " + pow2(x.w).String() + ") (bv2nat ")
		x.write(sb, s)
		sb.WriteString("))")
		return
	}
	sb.WriteString("(")
	sb.WriteString(op)
	for _, a := range t.args {
		sb.WriteString(" ")
		a.write(sb, s)
	}
	sb.WriteString(")")
}
