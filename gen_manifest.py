#!/usr/bin/env python3
"""Regenerates MANIFEST.json from manifest_src.py (claimed checks) — keeps not_applicable current."""
import json, os
from manifest_src import CLAIMS, NOT_APPLICABLE, NOTES
ROOT = os.path.dirname(os.path.abspath(__file__))
ids = [json.loads(l)["id"] for l in open(os.path.join(ROOT, "properties.jsonl"))]
checks = []
for pid in ids:
    if pid not in CLAIMS:
        continue
    c = CLAIMS[pid]
    checks.append({
        "property_id": pid,
        "quick_cmd": "./check %s --tier quick" % pid,
        "thorough_cmd": "./check %s --tier thorough" % pid,
        "evidence_file": "/verif/evidence/%s.json" % pid,
        "replay_cmd_template": "./check %s --replay {path}" % pid,
        "engine": "symgo",
        "level_claimed": {"category": c.get("category", "model_checking"), "text": c["text"], "design_ref": c.get("design_ref", "DESIGN.md §5 " + pid)},
        "level_note": c["note"],
        "technique": c.get("technique", "bounded symbolic execution of the real Go SSA (own engine) decided by SMT (z3 5.1 / z3 4.8 / cvc5), counterexamples replayed natively"),
    })
na = [{"property_id": pid, "reason": NOT_APPLICABLE.get(pid, "check not built yet in this session (work in progress; see DESIGN.md §9)")} for pid in ids if pid not in CLAIMS]
m = {
    "version": 1,
    "setup_cmd": "cd /verif/engine && GOFLAGS=-mod=mod GOPROXY=off GOSUMDB=off GOTOOLCHAIN=local go build -o /verif/bin/symgo .",
    "hooks": {"guard": "verif", "enable": "none needed: harness and shim files are injected with go/packages and `go test -overlay`; no file in /repo is changed for verification",
              "baseline_off_cmd": "cd /repo && go test -mod=mod -json -vet=off -count=1 -timeout 25m ./...",
              "source_commits": [], "add_only": True},
    "engines": [{"name": "symgo", "path": "/verif/engine", "serves_properties": [c["property_id"] for c in checks],
                 "kind_free_text": "path-based symbolic executor for go/ssa (x/tools v0.29.0) with SMT back end; re-loads /repo's working tree on every run"}],
    "checks": checks,
    "notes": NOTES,
    "not_applicable": na,
}
json.dump(m, open(os.path.join(ROOT, "MANIFEST.json"), "w"), indent=1)
print("claimed:", [c["property_id"] for c in checks], "not claimed:", [n["property_id"] for n in na])
