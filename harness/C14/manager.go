package cluster

//verif:pkg provider/cluster

// C14: the real (*deploymentManager).run loop against an environment that delivers manifest
// updates, the lease-closed (teardown) request, hostname-reservation results, deploy / teardown
// completions or failures and provider shutdown in every order within the step budget.

import (
	"context"
	"errors"
	"strings"
	"time"

	lifecycle "github.com/boz/go-lifecycle"
	sdk "github.com/cosmos/cosmos-sdk/types"
	"github.com/tendermint/tendermint/libs/log"

	"github.com/ovrclk/akash/client"
	"github.com/ovrclk/akash/client/broadcaster"
	"github.com/ovrclk/akash/manifest"
	ctypes "github.com/ovrclk/akash/provider/cluster/types"
	"github.com/ovrclk/akash/provider/session"
	"github.com/ovrclk/akash/pubsub"
	dtypes "github.com/ovrclk/akash/x/deployment/types"
	mtypes "github.com/ovrclk/akash/x/market/types"
	ptypes "github.com/ovrclk/akash/x/provider/types"
)

type c14call struct {
	what       string // Deploy, Teardown, TeardownRequested, Update, ReleaseHostnames, Shutdown
	start, end int
	ok         bool
	group      *manifest.Group
}

type c14env struct {
	calls    []c14call
	inflight int
	overlap  bool
	hostch   chan error
	torn     bool
}

func (e *c14env) add(c c14call) { e.calls = append(e.calls, c) }

type c14client struct {
	Client
	e *c14env
}

func (c c14client) begin() int {
	start := verif_StartSeq()
	c.e.inflight++
	if c.e.inflight > 1 || verif_TasksMatching("deploymentManager).do$") > 0 {
		c.e.overlap = true
	}
	return start
}

func (c c14client) Deploy(ctx context.Context, lid mtypes.LeaseID, g *manifest.Group) error {
	start := c.begin()
	ok := verif_Gate("Deploy", 2) == 0
	c.e.inflight--
	c.e.add(c14call{what: "Deploy", start: start, end: verif_Clock(), ok: ok, group: g})
	if !ok {
		return errors.New("deploy failed")
	}
	return nil
}

func (c c14client) TeardownLease(ctx context.Context, lid mtypes.LeaseID) error {
	if c.e.torn { // a retry after a failed attempt
		return nil
	}
	start := c.begin()
	ok := verif_Gate("TeardownLease", 2) == 0
	c.e.inflight--
	c.e.torn = true
	c.e.add(c14call{what: "Teardown", start: start, end: verif_Clock(), ok: ok})
	if !ok {
		return errors.New("teardown failed once")
	}
	return nil
}

func (c c14client) LeaseStatus(context.Context, mtypes.LeaseID) (*ctypes.LeaseStatus, error) {
	return nil, errors.New("not ready")
}

type c14hostnames struct{ e *c14env }

func (h c14hostnames) ReserveHostnames([]string, dtypes.DeploymentID) <-chan error { return h.e.hostch }
func (h c14hostnames) ReleaseHostnames([]string)                                   { h.e.add(c14call{what: "ReleaseHostnames", start: verif_Clock()}) }
func (h c14hostnames) CanReserveHostnames([]string, dtypes.DeploymentID) <-chan error {
	return nil
}

type c14session struct{}

func (c14session) Log() log.Logger                  { return log.NewNopLogger() }
func (c14session) Client() client.Client            { return c14chain{} }
func (c14session) Provider() *ptypes.Provider       { return &ptypes.Provider{Owner: "p"} }
func (s c14session) ForModule(string) session.Session { return s }

type c14chain struct{}

func (c14chain) Query() client.QueryClient { return nil }
func (c14chain) Tx() broadcaster.Client     { return c14tx{} }

type c14tx struct{}

func (c14tx) Broadcast(context.Context, ...sdk.Msg) error { return nil }

type c14bus struct{}

func (c14bus) Publish(pubsub.Event) error             { return nil }
func (c14bus) Subscribe() (pubsub.Subscriber, error) { return nil, errors.New("no") }
func (c14bus) Close()                                {}
func (c14bus) Done() <-chan struct{}                 { return nil }

func c14doneLifecycle() lifecycle.Lifecycle {
	lc := lifecycle.New()
	lc.ShutdownInitiated(nil)
	lc.ShutdownCompleted()
	return lc
}

var c14groups = []*manifest.Group{{Name: "g0"}, {Name: "g1"}, {Name: "g2"}}

func c14new() (*c14env, *deploymentManager) {
	e := &c14env{hostch: make(chan error, 1)}
	var bus pubsub.Bus = c14bus{}
	if !verif_Symbolic() {
		bus = pubsub.NewBus() // the real monitor / withdrawal goroutines run natively and need a working bus
	}
	updatech, teardownch := c14channels()
	dm := &deploymentManager{
		bus: bus, client: c14client{e: e}, session: c14session{},
		state: dsDeployActive, lease: mtypes.LeaseID{Owner: "o", DSeq: 1, GSeq: 1, OSeq: 1, Provider: "p"}, mgroup: c14groups[0],
		updatech: updatech, teardownch: teardownch,
		log: log.NewNopLogger(), lc: lifecycle.New(), hostnameService: c14hostnames{e},
	}
	return e, dm
}

// c14channels: the update and teardown channels exactly as the real newDeploymentManager makes
// them (their capacity decides when a caller's update()/teardown() returns).  The constructor's
// own goroutines are not wanted: dropped in the engine, shut down at once natively.
type c14idleClient struct{ Client }

func (c14idleClient) Deploy(context.Context, mtypes.LeaseID, *manifest.Group) error { return nil }
func (c14idleClient) TeardownLease(context.Context, mtypes.LeaseID) error          { return nil }
func (c14idleClient) LeaseStatus(context.Context, mtypes.LeaseID) (*ctypes.LeaseStatus, error) {
	return nil, errors.New("not ready")
}

func c14channels() (chan *manifest.Group, chan struct{}) {
	ctx, cancel := context.WithCancel(context.Background())
	defer cancel()
	s := &service{log: log.NewNopLogger(), bus: c14bus{}, client: c14idleClient{}, session: c14session{}, lc: lifecycle.New(),
		managerch: make(chan *deploymentManager, 1)}
	if !verif_Symbolic() {
		s.hostnames = newHostnameService(ctx, Config{})
		s.lc.ShutdownInitiated(nil) // the throw-away manager stops as soon as it looks
	}
	dm := newDeploymentManager(s, mtypes.LeaseID{Owner: "o", DSeq: 9, GSeq: 1, OSeq: 1, Provider: "p"}, &manifest.Group{Name: "throw-away"})
	if verif_Symbolic() {
		verif_DropTasks()
	} else {
		select {
		case <-dm.lc.Done():
		case <-time.After(3 * time.Second):
		}
		s.lc.ShutdownCompleted()
	}
	return make(chan *manifest.Group, cap(dm.updatech)), make(chan struct{}, cap(dm.teardownch))
}

func c14oracle(e *c14env, returned bool, quiescent bool) {
	verif_Assert(!e.overlap, "C14 never two cluster operations for the same lease at once")
	teardownReq, shutdownAt := 0, 0
	lastDeployEnd, teardownStart := 0, 0
	var lastUpdate *manifest.Group = c14groups[0]
	var lastDeployGroup *manifest.Group
	deployFailed, hostErr, released := false, false, false
	for _, c := range e.calls {
		switch c.what {
		case "TeardownRequested":
			teardownReq = c.start
		case "Shutdown":
			shutdownAt = c.start
		case "HostnamesFailed":
			hostErr = true
		case "Update":
			lastUpdate = c.group
		case "Deploy":
			if teardownReq != 0 {
				verif_Assert(c.start < teardownReq, "C14 no deploy starts after teardown was requested")
			}
			if c.end > lastDeployEnd {
				lastDeployEnd = c.end
			}
			lastDeployGroup = c.group
			if !c.ok {
				deployFailed = true
			}
		case "Teardown":
			teardownStart = c.start
			verif_Assert(c.start > lastDeployEnd, "C14 teardown is invoked only after the last deploy has finished")
		case "ReleaseHostnames":
			released = true
		}
	}
	if returned && teardownReq != 0 && shutdownAt == 0 && !hostErr {
		// the lease closed and nothing pre-empted the manager
		verif_Assert(teardownStart != 0, "C14 a closed lease is torn down")
		verif_Assert(released, "C14 hostnames are released once the manager of a closed lease is done")
	}
	if quiescent && teardownReq == 0 && !deployFailed && !hostErr && lastDeployGroup != nil {
		verif_Assert(lastDeployGroup == lastUpdate, "C14 absent a close or failed deploy the last deploy uses the most recently received manifest")
	}
}

func c14symbolic(steps int) {
	e, dm := c14new()
	verif_StubFunc("newDeploymentMonitor", func(d *deploymentManager) *deploymentMonitor { return &deploymentMonitor{lc: c14doneLifecycle()} })
	verif_StubFunc("newDeploymentWithdrawal", func(d *deploymentManager) *deploymentWithdrawal {
		return &deploymentWithdrawal{lc: c14doneLifecycle()}
	})
	nupd := 0
	verif_EnvChan(e.hostch, "hostnames", 1, func() interface{} {
		if verif_Pick("hostnames", 2) == 1 {
			e.add(c14call{what: "HostnamesFailed", start: verif_Clock()})
			return errors.New("hostname in use")
		}
		return error(nil)
	})
	verif_EnvChan(dm.updatech, "update", 2, func() interface{} {
		verif_Pick("update", 1)
		nupd++
		e.add(c14call{what: "Update", start: verif_Clock(), group: c14groups[nupd]})
		return c14groups[nupd]
	})
	verif_EnvChan(dm.teardownch, "teardown", 1, func() interface{} {
		verif_Pick("teardown", 1)
		e.add(c14call{what: "TeardownRequested", start: verif_Clock()})
		return struct{}{}
	})
	verif_EnvCaller(dm.updatech) // the cluster service calls update() and teardown(): with a buffered
	verif_EnvCaller(dm.teardownch) // channel the call returns when the request is queued
	verif_EnvFinal(dm.lc.ShutdownRequest(), "shutdown", 1, func() interface{} {
		verif_Pick("shutdown", 1)
		e.add(c14call{what: "Shutdown", start: verif_Clock()})
		return error(nil)
	})
	verif_OnQuiescent(func() { verif_Reach("idle"); c14oracle(e, false, true) })
	verif_Steps(steps)
	dm.run()
	verif_Reach("returned")
	c14oracle(e, true, false)
}

func c14native() {
	verif_LoopReset()
	e, dm := c14new()
	done := make(chan struct{})
	nupd := 0
	sawShutdown := false
	// requests QUEUED on a buffered request channel before the manager reaches its first select,
	// and a hostname result arriving at that moment, are all there when it first looks (a
	// goroutine already parked in select would be handed the first of them at once)
	sched := verif_Schedule()
	skip := 0
	for skip+1 < len(sched) && strings.HasPrefix(sched[skip+1], "queued:") {
		switch k, _, _ := verif_Step(sched[skip]); k {
		case "teardown":
			dm.teardownch <- struct{}{}
			e.add(c14call{what: "TeardownRequested", start: verif_Clock()})
		case "update":
			nupd++
			dm.updatech <- c14groups[nupd]
			e.add(c14call{what: "Update", start: verif_Clock(), group: c14groups[nupd]})
		}
		skip += 2
	}
	if skip > 0 && skip < len(sched) {
		if k, _, v := verif_Step(sched[skip]); k == "hostnames" {
			if v == 1 {
				e.add(c14call{what: "HostnamesFailed", start: verif_Clock()})
				e.hostch <- errors.New("hostname in use")
			} else {
				e.hostch <- nil
			}
			skip++
		}
	}
	go func() { dm.run(); close(done) }()
	send := func(f func() bool) {
		deadline := time.After(time.Second)
		for {
			if f() {
				return
			}
			select {
			case <-done:
				return
			case <-deadline:
				return
			default:
				time.Sleep(time.Millisecond)
			}
		}
	}
	for i, s := range sched {
		kind, name, val := verif_Step(s)
		if i < skip || kind == "queued" {
			continue
		}
		switch kind {
		case "op":
			verif_Release(name, val)
		case "hostnames":
			if val == 1 {
				e.add(c14call{what: "HostnamesFailed", start: verif_Clock()})
				e.hostch <- errors.New("hostname in use")
			} else {
				e.hostch <- nil
			}
		case "update":
			nupd++
			g := c14groups[nupd]
			send(func() bool {
				select {
				case dm.updatech <- g:
					e.add(c14call{what: "Update", start: verif_Clock(), group: g})
					return true
				default:
					return false
				}
			})
		case "teardown":
			send(func() bool {
				select {
				case dm.teardownch <- struct{}{}:
					e.add(c14call{what: "TeardownRequested", start: verif_Clock()})
					return true
				default:
					return false
				}
			})
		case "shutdown":
			sawShutdown = true
			e.add(c14call{what: "Shutdown", start: verif_Clock()})
			go dm.lc.ShutdownAsync(nil)
		}
		verif_Settle()
	}
	verif_ReleaseAll()
	returned := false
	select {
	case <-done:
		returned = true
	case <-time.After(300 * time.Millisecond):
	}
	if returned {
		verif_Reach("returned")
		c14oracle(e, true, false)
		return
	}
	// the manager is idle: evaluate the idle oracle, then stop it
	verif_Reach("idle")
	c14oracle(e, false, true)
	if !sawShutdown {
		go dm.lc.ShutdownAsync(nil)
	}
	select {
	case <-done:
	case <-time.After(5 * time.Second):
		verif_Assert(false, "C14 the manager stops on shutdown")
	}
}

func c14(steps int) {
	if verif_Symbolic() {
		c14symbolic(steps)
		return
	}
	// with buffered request channels the manager's select may pick either of two queued requests:
	// the native run is repeated so that a schedule the engine found shows up
	reps := 1
	if u, t := c14channels(); cap(u)+cap(t) > 0 {
		reps = 16
	}
	for i := 0; i < reps; i++ {
		c14native()
	}
}

func Harness_C14_5()  { c14(5) }
func Harness_C14_6()  { c14(6) }
func Harness_C14_8()  { c14(8) }
func Harness_C14_10() { c14(10) }
