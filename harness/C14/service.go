package cluster

// C14, service level: the real (*service).run loop of the cluster service, which owns one
// deployment manager per lease: manifests for a lease go to its manager (or start one), a closed
// lease is handed to its manager for teardown, and a finished manager's reservation is released.
//
// Engine: the deployment manager itself is the subject of manager.go's harnesses; here
// newDeploymentManager / update / teardown and the inventory's lookup / unreserve are replaced by
// models of their visible effects (a new manager starts a deploy; an update after teardown was
// requested is ignored; teardown starts at once; a reservation exists until it is unreserved).
// Natively the real managers, inventory service and hostname service run against a recording
// cluster client whose teardown is held until the schedule lets the manager finish.

import (
	"context"
	"sync"
	"time"

	lifecycle "github.com/boz/go-lifecycle"
	"github.com/tendermint/tendermint/libs/log"

	"github.com/ovrclk/akash/manifest"
	ctypes "github.com/ovrclk/akash/provider/cluster/types"
	"github.com/ovrclk/akash/provider/event"
	"github.com/ovrclk/akash/provider/session"
	"github.com/ovrclk/akash/pubsub"
	atypes "github.com/ovrclk/akash/types"
	dtypes "github.com/ovrclk/akash/x/deployment/types"
	mtypes "github.com/ovrclk/akash/x/market/types"
	ptypes "github.com/ovrclk/akash/x/provider/types"
)

type c14sEnv struct {
	mu       sync.Mutex
	oplog    []string // deploy-start, teardown-start, manager-done
	inflight int
	overlap  bool
	reserved bool
	closed   bool // lease-closed was delivered
	failing  bool // native: deploys fail (the schedule lets a manager finish without a lease-closed)
	sawDone  bool // native: the schedule let a manager finish
	events   chan pubsub.Event
	live     []*deploymentManager // engine model: managers that have not finished
	torn     map[*deploymentManager]bool
	gate     chan struct{}
	lid      mtypes.LeaseID
	group    manifest.Group
}

func (e *c14sEnv) log(s string) {
	e.mu.Lock()
	e.oplog = append(e.oplog, s)
	e.mu.Unlock()
}

// native cluster client
type c14sClient struct {
	Client
	e *c14sEnv
}

func (c c14sClient) enter() {
	c.e.mu.Lock()
	c.e.inflight++
	if c.e.inflight > 1 {
		c.e.overlap = true
	}
	c.e.mu.Unlock()
}
func (c c14sClient) leave() { c.e.mu.Lock(); c.e.inflight--; c.e.mu.Unlock() }

func (c c14sClient) Deploy(context.Context, mtypes.LeaseID, *manifest.Group) error {
	c.enter()
	c.e.log("deploy-start")
	c.leave()
	if c.e.failing {
		return errReservationNotFound // any error: the manager gives up, tears down and finishes
	}
	return nil
}
func (c c14sClient) TeardownLease(context.Context, mtypes.LeaseID) error {
	c.enter()
	c.e.log("teardown-start")
	select {
	case <-c.e.gate: // held until the schedule lets the manager finish
	case <-time.After(3 * time.Second):
	}
	c.leave()
	return nil
}
func (c c14sClient) Inventory(context.Context) ([]ctypes.Node, error) { return []ctypes.Node{}, nil }
func (c c14sClient) LeaseStatus(context.Context, mtypes.LeaseID) (*ctypes.LeaseStatus, error) {
	return &ctypes.LeaseStatus{}, nil
}

type c14sDeployment struct{ e *c14sEnv }

func (d c14sDeployment) LeaseID() mtypes.LeaseID       { return d.e.lid }
func (d c14sDeployment) ManifestGroup() manifest.Group { return d.e.group }

type c14sSub struct{ e *c14sEnv }

func (s c14sSub) Events() <-chan pubsub.Event       { return s.e.events }
func (s c14sSub) Clone() (pubsub.Subscriber, error) { return s, nil }
func (s c14sSub) Close()                            {}
func (s c14sSub) Done() <-chan struct{}             { return nil }

func (e *c14sEnv) manifestEvent() event.ManifestReceived {
	mani := manifest.Manifest{e.group}
	return event.ManifestReceived{LeaseID: e.lid, Manifest: &mani,
		Group: &dtypes.Group{GroupID: e.lid.GroupID(), GroupSpec: dtypes.GroupSpec{Name: e.group.Name}}}
}

func (e *c14sEnv) event(kind int) pubsub.Event {
	switch kind {
	case 0:
		return e.manifestEvent()
	case 1:
		e.mu.Lock()
		e.closed = true
		e.mu.Unlock()
		return mtypes.EventLeaseClosed{ID: e.lid}
	}
	return mtypes.EventBidClosed{}
}

func (e *c14sEnv) oracle(s *service) {
	e.mu.Lock()
	defer e.mu.Unlock()
	tornDown, teardowns := false, 0
	for _, op := range e.oplog {
		switch op {
		case "deploy-start":
			verif_Assert(!tornDown, "C14 no deploy starts after teardown was requested")
		case "teardown-start":
			tornDown = true
			teardowns++
		}
	}
	verif_Assert(!e.overlap, "C14 never two cluster operations in flight for one lease")
	verif_Assert(teardowns <= 1, "C14 never two cluster operations in flight for one lease") // one manager, hence one teardown, per lease
	// "... and the lease's reservation is then released": once the lease is closed and no manager
	// is left (it finished, or there never was one), the inventory holds nothing for the order; a
	// finished manager is no longer registered and its reservation is gone.
	reserved, managers, finished := e.reserved, len(s.managers), false
	if !verif_Symbolic() {
		_, err := s.inventory.lookup(e.lid.OrderID(), &e.group)
		reserved = err == nil
		finished = e.sawDone
	} else {
		verif_Assert(managers == len(e.live), "C14 the service tracks exactly the managers that have not finished")
		for _, op := range e.oplog {
			finished = finished || op == "manager-done"
		}
	}
	if (e.closed || finished) && managers == 0 {
		verif_Reach("released")
		verif_Assert(!reserved, "C14 reservation released once the lease is closed and its manager has finished")
	}
}

func c14service(steps int) {
	e := &c14sEnv{events: make(chan pubsub.Event), torn: map[*deploymentManager]bool{}, gate: make(chan struct{}), reserved: true}
	e.lid = mtypes.LeaseID{Owner: verif_Addr(0), DSeq: 7, GSeq: 1, OSeq: 1, Provider: verif_Addr(1)}
	e.group = manifest.Group{Name: "g", Services: []manifest.Service{{Name: "web", Image: "img", Count: 1,
		Resources: atypes.ResourceUnits{CPU: &atypes.CPU{Units: atypes.NewResourceValue(1)}, Memory: &atypes.Memory{Quantity: atypes.NewResourceValue(1 << 20)}, Storage: &atypes.Storage{Quantity: atypes.NewResourceValue(1 << 20)}},
		Expose: []manifest.ServiceExpose{{Port: 8080, Proto: manifest.TCP, Global: true}}}}}
	nop := log.NewNopLogger()
	lc := lifecycle.New()
	s := &service{
		session:  session.New(nop, nil, &ptypes.Provider{Owner: e.lid.Provider}),
		statusch: make(chan chan<- *ctypes.Status), managers: make(map[string]*deploymentManager), managerch: make(chan *deploymentManager),
		log: nop, lc: lc,
	}
	if verif_Symbolic() {
		s.sub = c14sSub{e}
		s.inventory = &inventoryService{}
		live := func() int { return len(e.live) }
		verif_StubFunc("newDeploymentManager", func(svc *service, lease mtypes.LeaseID, mgroup *manifest.Group) *deploymentManager {
			dm := &deploymentManager{lease: lease, mgroup: mgroup, lc: lifecycle.New()}
			e.live = append(e.live, dm)
			e.oplog = append(e.oplog, "deploy-start") // a new manager deploys the manifest it was created with
			verif_EnvLimit(svc.managerch, live())
			return dm
		})
		verif_StubFunc("(*github.com/ovrclk/akash/provider/cluster.deploymentManager).update", func(dm *deploymentManager, mgroup *manifest.Group) error {
			if !e.torn[dm] {
				e.oplog = append(e.oplog, "deploy-start")
			}
			return nil
		})
		verif_StubFunc("(*github.com/ovrclk/akash/provider/cluster.deploymentManager).teardown", func(dm *deploymentManager) error {
			if !e.torn[dm] {
				e.torn[dm] = true
				e.oplog = append(e.oplog, "teardown-start")
			}
			return nil
		})
		verif_StubFunc("(*github.com/ovrclk/akash/provider/cluster.inventoryService).lookup", func(is *inventoryService, order mtypes.OrderID, _ atypes.ResourceGroup) (ctypes.Reservation, error) {
			if e.reserved && order.Equals(e.lid.OrderID()) {
				return nil, nil
			}
			return nil, errReservationNotFound
		})
		verif_StubFunc("(*github.com/ovrclk/akash/provider/cluster.inventoryService).unreserve", func(is *inventoryService, order mtypes.OrderID) error {
			if !e.reserved || !order.Equals(e.lid.OrderID()) {
				return errReservationNotFound
			}
			e.reserved = false
			return nil
		})
		verif_EnvChan(e.events, "event", 4, func() interface{} { return e.event(verif_Pick("event", 3)) })
		// a manager finishes: after its teardown, or on its own after a failed deploy
		verif_EnvChan(s.managerch, "manager-done", 0, func() interface{} {
			verif_Pick("manager-done", 1)
			dm := e.live[0]
			e.live = e.live[1:]
			e.oplog = append(e.oplog, "manager-done")
			verif_EnvLimit(s.managerch, live())
			return dm
		})
		verif_OnQuiescent(func() {
			verif_Reach("observed")
			e.oracle(s)
		})
		verif_Steps(steps)
		s.run(nil)
		return
	}
	// native: the real service with real managers
	ctx, cancel := context.WithCancel(context.Background())
	defer cancel()
	bus := pubsub.NewBus()
	sub, err := bus.Subscribe()
	if err != nil {
		panic(err)
	}
	cl := c14sClient{e: e}
	cfg := Config{InventoryResourcePollPeriod: time.Hour, InventoryResourceDebugFrequency: 1, InventoryExternalPortQuantity: 1000}
	inv, err := newInventoryService(cfg, nop, lc.ShuttingDown(), sub, cl, []ctypes.Deployment{c14sDeployment{e}})
	if err != nil {
		panic(err)
	}
	s.client, s.bus, s.sub, s.inventory, s.hostnames = cl, bus, sub, inv, newHostnameService(ctx, cfg)
	go s.lc.WatchContext(ctx)
	go s.run(nil)
	time.Sleep(150 * time.Millisecond)
	closing := false
	for _, st := range verif_Schedule() {
		kind, _, val := verif_Step(st)
		closing = closing || kind == "event" && val == 1
		e.failing = e.failing || kind == "manager-done" && !closing
	}
	for _, st := range verif_Schedule() {
		kind, _, val := verif_Step(st)
		switch kind {
		case "event":
			_ = bus.Publish(e.event(val))
		case "manager-done":
			e.sawDone = true
			select {
			case e.gate <- struct{}{}: // let the held teardown (if any) complete
			case <-time.After(300 * time.Millisecond):
			}
		}
		time.Sleep(150 * time.Millisecond)
	}
	time.Sleep(200 * time.Millisecond)
	verif_Reach("observed")
	e.oracle(s)
	close(e.gate)
}

func Harness_C14_service_4() { c14service(4) }
func Harness_C14_service_5() { c14service(5) }
