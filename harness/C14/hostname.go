package cluster

// C14, hostname bookkeeping: one request or release of the real hostnameService (doRequest /
// doRelease) from an arbitrary table of held hostnames.  A deployment manager releases what its
// reservation obtained; so a REFUSED reservation must hold nothing (the manager that was refused
// never releases), a granted one holds exactly the requested names, and a release frees exactly
// the named ones.

import (
	"context"

	lifecycle "github.com/boz/go-lifecycle"

	dtypes "github.com/ovrclk/akash/x/deployment/types"
)

func Harness_C14_hostnames() {
	names := []string{"a.example.com", "b.example.com", "c.example.com"}
	dids := []dtypes.DeploymentID{{Owner: verif_Addr(0), DSeq: 1}, {Owner: verif_Addr(0), DSeq: 2}}
	hs := &hostnameService{inUse: map[string]dtypes.DeploymentID{}}
	pre := map[string]int{} // 0 free, 1 held by deployment 1, 2 held by deployment 2
	for _, n := range names {
		switch verif_Choice("held-"+n, 3) {
		case 1:
			hs.inUse[n], pre[n] = dids[0], 1
		case 2:
			hs.inUse[n], pre[n] = dids[1], 2
		}
	}
	if verif_Choice("c-is-blocked", 2) == 1 {
		hs.blockedHostnames = []string{names[2]}
	}
	// the request: 1..2 distinct names in either order
	first := verif_Choice("first", 3)
	req := []string{names[first]}
	if verif_Choice("two-names", 2) == 1 {
		second := verif_Choice("second", 3)
		verif_Assume(second != first)
		req = append(req, names[second])
	}
	who := verif_Choice("deployment", 2)
	requested := func(n string) bool {
		for _, r := range req {
			if r == n {
				return true
			}
		}
		return false
	}
	held := func(n string) int {
		d, ok := hs.inUse[n]
		switch {
		case !ok:
			return 0
		case d.Equals(dids[0]):
			return 1
		}
		return 2
	}
	if verif_Choice("release", 2) == 1 {
		hs.doRelease(req)
		verif_Reach("released")
		for _, n := range names {
			if requested(n) {
				verif_Assert(held(n) == 0, "C14 released hostnames are free again")
			} else {
				verif_Assert(held(n) == pre[n], "C14 a release frees only the named hostnames")
			}
		}
		return
	}
	doReserve := verif_Choice("reserve", 2) == 1
	result := make(chan error, 1)
	hs.doRequest(reserveRequest{hostnames: req, result: result, doReserve: doReserve, dID: dids[who]})
	verif_Assert(len(result) == 1, "C14 a hostname request is answered exactly once")
	if len(result) != 1 {
		return
	}
	err := <-result
	if err != nil || !doReserve {
		verif_Reach("nothing-reserved")
		for _, n := range names {
			verif_Assert(held(n) == pre[n], "C14 a refused hostname reservation holds nothing, so nothing is left unreleased when its manager ends")
		}
		return
	}
	verif_Reach("reserved")
	for _, n := range names {
		if requested(n) {
			verif_Assert(held(n) == who+1, "C14 a granted reservation holds the requested hostnames")
			verif_Assert(pre[n] == 0 || pre[n] == who+1, "C14 a hostname held by another deployment is never granted")
		} else {
			verif_Assert(held(n) == pre[n], "C14 a reservation touches only the requested hostnames")
		}
	}
}

// The client-side wrappers: what ReserveHostnames obtained for a deployment, ReleaseHostnames gives
// back - whatever the spelling of the names in the manifest (hostnames are case-insensitive).
func Harness_C14_hostnames_release() {
	names := [][]string{{"shop.example.com"}, {"Shop.Example.COM"}, {"a.example.com", "B.Example.com"}}[verif_Choice("names", 3)]
	d1 := dtypes.DeploymentID{Owner: verif_Addr(0), DSeq: 1}
	d2 := dtypes.DeploymentID{Owner: verif_Addr(0), DSeq: 2}
	var hs *hostnameService
	if verif_Symbolic() {
		hs = &hostnameService{inUse: map[string]dtypes.DeploymentID{}, requests: make(chan reserveRequest), releases: make(chan []string), lc: lifecycle.New()}
		// the service loop: one request or release at a time
		verif_EnvSinkFn(hs.requests, "request", func(v interface{}) { hs.doRequest(v.(reserveRequest)) })
		verif_EnvSinkFn(hs.releases, "release", func(v interface{}) { hs.doRelease(v.([]string)) })
	} else {
		ctx, cancel := context.WithCancel(context.Background())
		defer cancel()
		hs = newHostnameService(ctx, Config{})
	}
	err := <-hs.ReserveHostnames(names, d1)
	verif_Assert(err == nil, "C14 harness: free hostnames are granted")
	hs.ReleaseHostnames(names)
	// another deployment asks for the same names (the loop serves requests after the release)
	err = <-hs.ReserveHostnames(names, d2)
	verif_Reach("released-and-retaken")
	verif_Assert(err == nil, "C14 the lease's hostnames are released: another deployment can take them afterwards")
}
