package zzc16

// C16, last sentence: every emitted marketplace event decodes through the provider's event parser
// to a typed event equal to the one emitted - for all identifier and price values.  Each typed
// event of the deployment, market, provider and audit modules is built from symbolic identifiers
// (arbitrary uint64 / uint32 sequence numbers, price amounts), rendered by its real ToSDKEvent,
// stringified as the chain does, and parsed back by the real sdkutil.ParseEvent + module ParseEvent.

import (
	"bytes"

	sdk "github.com/cosmos/cosmos-sdk/types"
	abci "github.com/tendermint/tendermint/abci/types"

	"github.com/ovrclk/akash/sdkutil"
	atypes "github.com/ovrclk/akash/x/audit/types"
	dtypes "github.com/ovrclk/akash/x/deployment/types"
	mtypes "github.com/ovrclk/akash/x/market/types"
	ptypes "github.com/ovrclk/akash/x/provider/types"
)

type toSDK interface{ ToSDKEvent() sdk.Event }

func c16parse(ev toSDK) (sdkutil.ModuleEvent, bool) {
	e, err := sdkutil.ParseEvent(sdk.StringifyEvent(abci.Event(ev.ToSDKEvent())))
	if err != nil {
		return nil, false
	}
	var typed sdkutil.ModuleEvent
	switch e.Module {
	case mtypes.ModuleName:
		typed, err = mtypes.ParseEvent(e)
	case dtypes.ModuleName:
		typed, err = dtypes.ParseEvent(e)
	case ptypes.ModuleName:
		typed, err = ptypes.ParseEvent(e)
	case atypes.ModuleName:
		typed, err = atypes.ParseEvent(e)
	default:
		return nil, false
	}
	return typed, err == nil
}

const c16label = "C16 every emitted event decodes through the provider's event parser to a typed event equal to the one emitted"

func c16did() dtypes.DeploymentID {
	return dtypes.DeploymentID{Owner: verif_Addr(0), DSeq: verif_U64("dseq")}
}
func c16gid() dtypes.GroupID { return dtypes.MakeGroupID(c16did(), verif_U32("gseq")) }
func c16oid() mtypes.OrderID { return mtypes.MakeOrderID(c16gid(), verif_U32("oseq")) }
func c16bid() mtypes.BidID {
	o := c16oid()
	return mtypes.BidID{Owner: o.Owner, DSeq: o.DSeq, GSeq: o.GSeq, OSeq: o.OSeq, Provider: verif_Addr(1)}
}
func c16price() sdk.Coin {
	a := verif_Int("price")
	verif_Assume(verif_And(a.GTE(sdk.ZeroInt()), a.LT(sdk.NewInt(1).MulRaw(1<<62).MulRaw(1<<38))))
	return sdk.Coin{Denom: "uakt", Amount: a}
}

func Harness_C16_codec_deployment() {
	id := c16did()
	version := []byte{0x00, 0x7f, 0x80, 0xff}
	switch verif_Choice("event", 3) {
	case 0:
		got, ok := c16parse(dtypes.NewEventDeploymentCreated(id, version))
		verif_Assert(ok, c16label)
		if t, is := got.(dtypes.EventDeploymentCreated); ok {
			verif_Assert(is && t.ID.Owner == id.Owner && t.ID.DSeq == id.DSeq && bytes.Equal(t.Version, version), c16label)
		}
	case 1:
		got, ok := c16parse(dtypes.NewEventDeploymentUpdated(id, version))
		verif_Assert(ok, c16label)
		if t, is := got.(dtypes.EventDeploymentUpdated); ok {
			verif_Assert(is && t.ID.Owner == id.Owner && t.ID.DSeq == id.DSeq && bytes.Equal(t.Version, version), c16label)
		}
	case 2:
		got, ok := c16parse(dtypes.NewEventDeploymentClosed(id))
		verif_Assert(ok, c16label)
		if t, is := got.(dtypes.EventDeploymentClosed); ok {
			verif_Assert(is && t.ID.Owner == id.Owner && t.ID.DSeq == id.DSeq, c16label)
		}
	}
	verif_Reach("parsed")
}

func Harness_C16_codec_group() {
	id := c16gid()
	same := func(g dtypes.GroupID) bool { return g.Owner == id.Owner && g.DSeq == id.DSeq && g.GSeq == id.GSeq }
	switch verif_Choice("event", 3) {
	case 0:
		got, ok := c16parse(dtypes.NewEventGroupClosed(id))
		verif_Assert(ok, c16label)
		if t, is := got.(dtypes.EventGroupClosed); ok {
			verif_Assert(is && same(t.ID), c16label)
		}
	case 1:
		got, ok := c16parse(dtypes.NewEventGroupPaused(id))
		verif_Assert(ok, c16label)
		if t, is := got.(dtypes.EventGroupPaused); ok {
			verif_Assert(is && same(t.ID), c16label)
		}
	case 2:
		got, ok := c16parse(dtypes.NewEventGroupStarted(id))
		verif_Assert(ok, c16label)
		if t, is := got.(dtypes.EventGroupStarted); ok {
			verif_Assert(is && same(t.ID), c16label)
		}
	}
	verif_Reach("parsed")
}

func Harness_C16_codec_order() {
	id := c16oid()
	same := func(o mtypes.OrderID) bool {
		return o.Owner == id.Owner && o.DSeq == id.DSeq && o.GSeq == id.GSeq && o.OSeq == id.OSeq
	}
	if verif_Choice("event", 2) == 0 {
		got, ok := c16parse(mtypes.NewEventOrderCreated(id))
		verif_Assert(ok, c16label)
		if t, is := got.(mtypes.EventOrderCreated); ok {
			verif_Assert(is && same(t.ID), c16label)
		}
	} else {
		got, ok := c16parse(mtypes.NewEventOrderClosed(id))
		verif_Assert(ok, c16label)
		if t, is := got.(mtypes.EventOrderClosed); ok {
			verif_Assert(is && same(t.ID), c16label)
		}
	}
	verif_Reach("parsed")
}

func Harness_C16_codec_bid_lease() {
	id := c16bid()
	price := c16price()
	sameB := func(b mtypes.BidID) bool {
		return b.Owner == id.Owner && b.DSeq == id.DSeq && b.GSeq == id.GSeq && b.OSeq == id.OSeq && b.Provider == id.Provider
	}
	sameP := func(c sdk.Coin) bool { return c.Denom == price.Denom && c.Amount.Equal(price.Amount) }
	switch verif_Choice("event", 4) {
	case 0:
		got, ok := c16parse(mtypes.NewEventBidCreated(id, price))
		verif_Assert(ok, c16label)
		if t, is := got.(mtypes.EventBidCreated); ok {
			verif_Assert(is && sameB(t.ID) && sameP(t.Price), c16label)
		}
	case 1:
		got, ok := c16parse(mtypes.NewEventBidClosed(id, price))
		verif_Assert(ok, c16label)
		if t, is := got.(mtypes.EventBidClosed); ok {
			verif_Assert(is && sameB(t.ID) && sameP(t.Price), c16label)
		}
	case 2:
		got, ok := c16parse(mtypes.NewEventLeaseCreated(mtypes.LeaseID(id), price))
		verif_Assert(ok, c16label)
		if t, is := got.(mtypes.EventLeaseCreated); ok {
			verif_Assert(is && sameB(mtypes.BidID(t.ID)) && sameP(t.Price), c16label)
		}
	case 3:
		got, ok := c16parse(mtypes.NewEventLeaseClosed(mtypes.LeaseID(id), price))
		verif_Assert(ok, c16label)
		if t, is := got.(mtypes.EventLeaseClosed); ok {
			verif_Assert(is && sameB(mtypes.BidID(t.ID)) && sameP(t.Price), c16label)
		}
	}
	verif_Reach("parsed")
}

func Harness_C16_codec_provider_audit() {
	owner, err := sdk.AccAddressFromBech32(verif_Addr(0))
	if err != nil {
		panic(err)
	}
	auditor, err := sdk.AccAddressFromBech32(verif_Addr(1))
	if err != nil {
		panic(err)
	}
	switch verif_Choice("event", 5) {
	case 0:
		got, ok := c16parse(ptypes.NewEventProviderCreated(owner))
		verif_Assert(ok, c16label)
		if t, is := got.(ptypes.EventProviderCreated); ok {
			verif_Assert(is && t.Owner.Equals(owner), c16label)
		}
	case 1:
		got, ok := c16parse(ptypes.NewEventProviderUpdated(owner))
		verif_Assert(ok, c16label)
		if t, is := got.(ptypes.EventProviderUpdated); ok {
			verif_Assert(is && t.Owner.Equals(owner), c16label)
		}
	case 2:
		got, ok := c16parse(ptypes.NewEventProviderDeleted(owner))
		verif_Assert(ok, c16label)
		if t, is := got.(ptypes.EventProviderDeleted); ok {
			verif_Assert(is && t.Owner.Equals(owner), c16label)
		}
	case 3:
		got, ok := c16parse(atypes.NewEventTrustedAuditorCreated(owner, auditor))
		verif_Assert(ok, c16label)
		if t, is := got.(atypes.EventTrustedAuditorCreated); ok {
			verif_Assert(is && t.Owner.Equals(owner) && t.Auditor.Equals(auditor), c16label)
		}
	case 4:
		got, ok := c16parse(atypes.NewEventTrustedAuditorDeleted(owner, auditor))
		verif_Assert(ok, c16label)
		if t, is := got.(atypes.EventTrustedAuditorDeleted); ok {
			verif_Assert(is && t.Owner.Equals(owner) && t.Auditor.Equals(auditor), c16label)
		}
	}
	verif_Reach("parsed")
}
