package keeper

//verif:pkg x/cert/keeper

// C17 (listings through the gRPC querier, with pages): every registered certificate that matches
// the filter appears exactly once, with its serial and state, when a client follows the pages.

import (
	sdk "github.com/cosmos/cosmos-sdk/types"
	sdkquery "github.com/cosmos/cosmos-sdk/types/query"

	"github.com/ovrclk/akash/x/cert/types"
)

func c17pages(n int, limit uint64, byOwner bool, stateFilter string) {
	ctx, k := c17env()
	cs := c17seed(ctx, k, n)
	q := querier{keeper: *k}
	owner := 0
	req := &types.QueryCertificatesRequest{Pagination: &sdkquery.PageRequest{Limit: limit}}
	req.Filter.State = stateFilter
	if byOwner {
		req.Filter.Owner = verif_Addr(owner)
	}
	var got []types.CertificateResponse
	failed := false
	for page := 0; page < n+2; page++ {
		res, err := func() (res *types.QueryCertificatesResponse, err error) {
			defer func() {
				if r := recover(); r != nil {
					err = types.ErrInvalidState
				}
			}()
			return q.Certificates(sdk.WrapSDKContext(ctx), req)
		}()
		if err != nil || res == nil {
			failed = true
			break
		}
		got = append(got, res.Certificates...)
		if res.Pagination == nil || len(res.Pagination.NextKey) == 0 {
			break
		}
		req.Pagination = &sdkquery.PageRequest{Key: res.Pagination.NextKey, Limit: limit}
	}
	verif_Assert(!failed, "C17 paged listing never fails")
	if failed {
		return
	}
	want := 0
	for _, c := range cs {
		match := (!byOwner || c.owner == owner) && (stateFilter == "" || (stateFilter == "valid") == (c.state == types.CertificateValid))
		if !match {
			continue
		}
		want++
		n := 0
		for _, g := range got {
			if g.Serial == c.serial.String() && g.Certificate.State == c.state {
				n++
			}
		}
		verif_Assert(n >= 1, "C17 every matching certificate appears in the paged listing with its serial and state")
	}
	verif_Assert(len(got) == want, "C17 the paged listing returns every matching certificate exactly once")
	verif_Reach("paged")
}

func Harness_C17_pages_owner_2()  { c17pages(2, 1, true, "") }
func Harness_C17_pages_owner_3()  { c17pages(3, 1, true, "") }
func Harness_C17_pages_owner_3b() { c17pages(3, 2, true, "valid") }
func Harness_C17_pages_all_2()    { c17pages(2, 1, false, "") }
func Harness_C17_pages_all_3()    { c17pages(3, 2, false, "valid") }
