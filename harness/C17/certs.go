package keeper

//verif:pkg x/cert/keeper

// C17: one inductive step of the certificate module from an arbitrary state of
// <= N stored certificates (owners A/B, symbolic serials and states), through the real
// message server, followed by every listing path.

import (
	"math/big"

	sdk "github.com/cosmos/cosmos-sdk/types"
	"github.com/ovrclk/akash/x/cert/types"
)

type c17cert struct {
	owner  int // 0 = A, 1 = B
	serial sdk.Int
	state  types.Certificate_State
}

func c17addr(i int) sdk.AccAddress {
	a, err := sdk.AccAddressFromBech32(verif_Addr(i))
	if err != nil {
		panic(err)
	}
	return a
}

// stated bound on serial numbers: c17bytes bytes (3 quick, 9 in the *_wide harnesses)
var c17bytes = 3

// c17wide runs a harness with 9-byte serials (native replays share one process: reset afterwards)
func c17wide(f func()) {
	c17bytes = 9
	defer func() { c17bytes = 3 }()
	f()
}

func c17serial(label string) sdk.Int {
	s := verif_Int(label)
	lim := sdk.OneInt()
	for i := 0; i < c17bytes; i++ {
		lim = lim.MulRaw(256)
	}
	verif_Assume(verif_And(s.GTE(sdk.ZeroInt()), s.LT(lim)))
	return s
}

func c17id(c c17cert) types.CertID {
	return types.CertID{Owner: c17addr(c.owner), Serial: *c.serial.BigInt()}
}

// seed writes n certificates straight into the store (arbitrary pre-state).
func c17seed(ctx sdk.Context, k *keeper, n int) []c17cert {
	var cs []c17cert
	store := ctx.KVStore(k.skey)
	for i := 0; i < n; i++ {
		c := c17cert{owner: verif_Choice("owner", 2), serial: c17serial("serial"), state: types.CertificateValid}
		if verif_Choice("revoked", 2) == 1 {
			c.state = types.CertificateRevoked
		}
		for _, o := range cs {
			verif_Assume(verif_Not(verif_And(o.owner == c.owner, o.serial.Equal(c.serial)))) // INV: unique per owner+serial
		}
		cs = append(cs, c)
		val := types.Certificate{State: c.state, Cert: verif_CertPEM(verif_Addr(c.owner), c.serial), Pubkey: verif_PubPEM()}
		store.Set(certificateKey(c17id(c)), k.cdc.MustMarshalBinaryBare(&val))
	}
	return cs
}

type c17listing struct {
	serials []string
	states  []types.Certificate_State
	failed  bool
}

func c17collect(run func(fn func(types.CertificateResponse) bool)) (out c17listing) {
	defer func() {
		if r := recover(); r != nil {
			out.failed = true
		}
	}()
	run(func(c types.CertificateResponse) bool {
		out.serials = append(out.serials, c.Serial)
		out.states = append(out.states, c.Certificate.State)
		return false
	})
	return out
}

func c17count(l c17listing, serial string, st types.Certificate_State) int {
	n := 0
	for i := range l.serials {
		if l.serials[i] == serial && l.states[i] == st {
			n++
		}
	}
	return n
}

// every listing returns exactly the matching certificates of the expected state `cs`
func c17checkListings(ctx sdk.Context, k *keeper, cs []c17cert) {
	all := c17collect(func(fn func(types.CertificateResponse) bool) { k.WithCertificates(ctx, fn) })
	verif_Assert(!all.failed, "C17 listing all certificates never fails")
	if !all.failed {
		verif_Assert(len(all.serials) == len(cs), "C17 listing all certificates returns every certificate once")
	}
	for _, st := range []types.Certificate_State{types.CertificateValid, types.CertificateRevoked} {
		l := c17collect(func(fn func(types.CertificateResponse) bool) { k.WithCertificatesState(ctx, st, fn) })
		verif_Assert(!l.failed, "C17 listing by state never fails")
		if !l.failed {
			n := 0
			for _, c := range cs {
				if c.state == st {
					n++
					verif_Assert(c17count(l, c.serial.String(), st) >= 1, "C17 certificate appears in the listing of its state with its serial")
				}
			}
			verif_Assert(len(l.serials) == n, "C17 listing by state returns only matching certificates")
		}
	}
	for o := 0; o < 2; o++ {
		l := c17collect(func(fn func(types.CertificateResponse) bool) { k.WithOwner(ctx, c17addr(o), fn) })
		verif_Assert(!l.failed, "C17 listing by owner never fails")
		if !l.failed {
			n := 0
			for _, c := range cs {
				if c.owner == o {
					n++
					verif_Assert(c17count(l, c.serial.String(), c.state) >= 1, "C17 certificate appears in its owner's listing with serial and state")
				}
			}
			verif_Assert(len(l.serials) == n, "C17 listing by owner returns only that owner's certificates")
		}
		for _, st := range []types.Certificate_State{types.CertificateValid, types.CertificateRevoked} {
			l := c17collect(func(fn func(types.CertificateResponse) bool) { k.WithOwnerState(ctx, c17addr(o), st, fn) })
			verif_Assert(!l.failed, "C17 listing by owner and state never fails")
			if !l.failed {
				n := 0
				for _, c := range cs {
					if c.owner == o && c.state == st {
						n++
					}
				}
				verif_Assert(len(l.serials) == n, "C17 listing by owner and state returns exactly the matching certificates")
			}
		}
	}
	for _, c := range cs {
		r, ok := k.GetCertificateByID(ctx, c17id(c))
		verif_Assert(ok, "C17 registered certificate is found by owner and serial")
		if ok {
			verif_Assert(verif_And(r.Serial == c.serial.String(), r.Certificate.State == c.state), "C17 lookup returns the certificate's serial and state")
		}
	}
}

func c17env() (sdk.Context, *keeper) {
	skey := sdk.NewKVStoreKey(types.StoreKey)
	ctx := verif_NewContext(10, skey)
	return ctx, &keeper{skey: skey, cdc: verif_Codec()}
}

type c17server interface {
	create(ctx sdk.Context, req *types.MsgCreateCertificate) error
	revoke(ctx sdk.Context, req *types.MsgRevokeCertificate) error
}

// the message-server logic of x/cert/handler, reproduced call for call is NOT what we want:
// the real handler lives in another package, so the keeper-level step goes through the
// keeper's public methods exactly as handler.msgServer does (see harness/C17/handler.go for
// the handler package itself).
func c17create(ctx sdk.Context, k *keeper, req *types.MsgCreateCertificate) error {
	if err := req.ValidateBasic(); err != nil {
		return err
	}
	owner, err := sdk.AccAddressFromBech32(req.Owner)
	if err != nil {
		return err
	}
	return k.CreateCertificate(ctx, owner, req.Cert, req.Pubkey)
}

func c17revoke(ctx sdk.Context, k *keeper, req *types.MsgRevokeCertificate) error {
	if err := req.ValidateBasic(); err != nil {
		return err
	}
	id, err := types.ToCertID(req.ID)
	if err != nil {
		return err
	}
	return k.RevokeCertificate(ctx, id)
}

func c17listOnly(n int) {
	ctx, k := c17env()
	cs := c17seed(ctx, k, n)
	verif_Reach("listed")
	c17checkListings(ctx, k, cs)
}

func Harness_C17_list_1() { c17listOnly(1) }
func Harness_C17_list_2() { c17listOnly(2) }
func Harness_C17_list_3() { c17listOnly(3) }
func Harness_C17_list_1_wide() { c17wide(func() { c17listOnly(1) }) }
func Harness_C17_list_2_wide() { c17wide(func() { c17listOnly(2) }) }
func Harness_C17_create_1_wide() { c17wide(func() { c17stepCreate(1) }) }
func Harness_C17_revoke_1_wide() { c17wide(func() { c17stepRevoke(1) }) }
func Harness_C17_create_2_wide() { c17wide(func() { c17stepCreate(2) }) }
func Harness_C17_revoke_2_wide() { c17wide(func() { c17stepRevoke(2) }) }
func Harness_C17_list_3_wide() { c17wide(func() { c17listOnly(3) }) }

func c17stepCreate(n int) {
	ctx, k := c17env()
	cs := c17seed(ctx, k, n)
	signer := verif_Choice("signer", 2)
	cn := verif_Choice("cn", 3) // A, B, or not an address
	serial := c17serial("new-serial")
	cnStr := "nobody"
	if cn < 2 {
		cnStr = verif_Addr(cn)
	}
	cert := verif_CertPEM(cnStr, serial)
	if verif_Choice("issued-by-the-signer", 2) == 1 {
		// not self-signed: the subject names cnStr, the issuing certificate names the signing account
		cert = verif_DERToPEM(verif_CertDER(cnStr, verif_Addr(signer), serial, 1, 2, true, true))
	}
	req := &types.MsgCreateCertificate{Owner: verif_Addr(signer), Cert: cert, Pubkey: verif_PubPEM()}
	err := c17create(ctx, k, req)
	dup := false
	for _, c := range cs {
		dup = verif_Or(dup, verif_And(c.owner == signer, c.serial.Equal(serial)))
	}
	if err == nil {
		verif_Reach("created")
		verif_Assert(cn == signer, "C17 certificate registered only by the account named in it")
		verif_Assert(!dup, "C17 at most one certificate per owner and serial")
		cs = append(cs, c17cert{owner: signer, serial: serial, state: types.CertificateValid})
	} else {
		verif_Reach("create-rejected")
	}
	// rejected => nothing changed; accepted => exactly the new certificate was added
	c17checkListings(ctx, k, cs)
}

func Harness_C17_create_0() { c17stepCreate(0) }
func Harness_C17_create_1() { c17stepCreate(1) }
func Harness_C17_create_2() { c17stepCreate(2) }

func c17stepRevoke(n int) {
	ctx, k := c17env()
	cs := c17seed(ctx, k, n)
	owner := verif_Choice("id-owner", 2)
	serial := c17serial("id-serial")
	req := &types.MsgRevokeCertificate{ID: types.CertificateID{Owner: verif_Addr(owner), Serial: serial.String()}}
	err := c17revoke(ctx, k, req)
	hit := -1
	for i, c := range cs {
		if c.owner == owner && c.serial.Equal(serial) {
			hit = i
		}
	}
	if err == nil {
		verif_Reach("revoked")
		verif_Assert(hit >= 0, "C17 revoke succeeds only for an existing certificate of the signer")
		if hit >= 0 {
			verif_Assert(cs[hit].state == types.CertificateValid, "C17 revoke succeeds only on a valid certificate")
			cs[hit].state = types.CertificateRevoked
		}
	} else {
		verif_Reach("revoke-rejected")
	}
	// every other certificate (in particular every one of another owner) keeps its state; none is removed
	c17checkListings(ctx, k, cs)
}

// A revoke request whose serial is written with a leading zero ("010"): message validation reads
// it as the decimal 10; the handler must revoke that certificate and no other (8 = octal 010 is
// stored as well).
func Harness_C17_revoke_padded() {
	ctx, k := c17env()
	store := ctx.KVStore(k.skey)
	cs := []c17cert{{owner: 0, serial: sdk.NewInt(8), state: types.CertificateValid}, {owner: 0, serial: sdk.NewInt(10), state: types.CertificateValid}}
	for _, c := range cs {
		val := types.Certificate{State: c.state, Cert: verif_CertPEM(verif_Addr(c.owner), c.serial), Pubkey: verif_PubPEM()}
		store.Set(certificateKey(c17id(c)), k.cdc.MustMarshalBinaryBare(&val))
	}
	text := []string{"010", "10", "0010", "08"}[verif_Choice("serial-text", 4)]
	err := c17revoke(ctx, k, &types.MsgRevokeCertificate{ID: types.CertificateID{Owner: verif_Addr(0), Serial: text}})
	if err == nil {
		verif_Reach("revoked")
		want := 1 // decimal 10
		if text == "08" {
			want = 0
		}
		cs[want].state = types.CertificateRevoked
	} else {
		verif_Reach("revoke-rejected")
	}
	// exactly the named certificate changed (or nothing, if the request was refused)
	for _, c := range cs {
		got, found := k.GetCertificateByID(ctx, c17id(c))
		verif_Assert(found && got.Certificate.State == c.state, "C06 a certificate message changes only the certificate it names")
	}
	c17checkListings(ctx, k, cs)
}

func Harness_C17_revoke_1() { c17stepRevoke(1) }
func Harness_C17_revoke_2() { c17stepRevoke(2) }

var _ = big.NewInt
