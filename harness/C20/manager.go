package manifest

//verif:pkg provider/manifest

// C20: the real manifest (*manager).run loop (validateRequests, validateRequest, emitReceivedEvents,
// fillAllRequests, maybeFetchData, maybeScheduleStop) against an environment that delivers lease
// notifications, manifest submissions (valid / wrong version / invalid), version updates, lease
// removals, chain-data fetch completions or failures and shutdown in every scheduler-chosen order.

import (
	"context"
	"errors"
	"strings"
	"sync/atomic"
	"time"

	lifecycle "github.com/boz/go-lifecycle"
	sdk "github.com/cosmos/cosmos-sdk/types"
	"github.com/tendermint/tendermint/libs/log"
	"google.golang.org/grpc"

	"github.com/ovrclk/akash/client"
	"github.com/ovrclk/akash/client/broadcaster"
	amanifest "github.com/ovrclk/akash/manifest"
	"github.com/ovrclk/akash/provider/event"
	"github.com/ovrclk/akash/provider/session"
	"github.com/ovrclk/akash/pubsub"
	"github.com/ovrclk/akash/sdl"
	atypes "github.com/ovrclk/akash/types"
	dtypes "github.com/ovrclk/akash/x/deployment/types"
	mtypes "github.com/ovrclk/akash/x/market/types"
	ptypes "github.com/ovrclk/akash/x/provider/types"
)

type c20env struct {
	replies   []chan error // one capacity-1 reply channel per submitted request
	kinds     []int
	afterUpd  []bool // submitted after the version update had been delivered
	updated   bool
	published []event.ManifestReceived
	pubLeases []int
	nleases   int
	fetchOK   bool
	dep       dtypes.DeploymentID
	manifests []amanifest.Manifest
	hang      bool
	hold      int32 // native: keep the manager inside its next log call
	inLog     int32
}

func c20units() atypes.ResourceUnits {
	return atypes.ResourceUnits{
		CPU:     &atypes.CPU{Units: atypes.NewResourceValue(100)},
		Memory:  &atypes.Memory{Quantity: atypes.NewResourceValue(64 << 20)},
		Storage: &atypes.Storage{Quantity: atypes.NewResourceValue(64 << 20)},
	}
}

// manifest kinds: 0 valid (version A), 1 valid content but another version (B), 2 structurally invalid
func c20manifest(kind int) amanifest.Manifest {
	svc := amanifest.Service{Name: "web", Image: "img-a", Resources: c20units(), Count: 1,
		Expose: []amanifest.ServiceExpose{{Port: 8080, Proto: amanifest.TCP, Global: true}}}
	switch kind {
	case 1:
		svc.Image = "img-b"
	case 2:
		return amanifest.Manifest{{Name: "g"}}
	}
	return amanifest.Manifest{{Name: "g", Services: []amanifest.Service{svc}}}
}

func c20version(m amanifest.Manifest) []byte {
	if verif_Symbolic() {
		// the hash (json + SHA-256) is outside the encodable fragment: in the engine the version
		// of a manifest is an injective tag of its content
		if len(m) == 0 || len(m[0].Services) == 0 {
			return []byte("empty")
		}
		return []byte(m[0].Services[0].Image)
	}
	v, err := sdl.ManifestVersion(m)
	if err != nil {
		panic(err)
	}
	return v
}

// c20holdLog (native): keeps the manager busy inside its next log call while the replay driver
// lets two requests arrive "at the same time" (a goroutine parked in select would be handed the
// first of them at once); every event the manager handles starts with a log call.
type c20holdLog struct{ e *c20env }

func (l c20holdLog) wait() {
	atomic.AddInt32(&l.e.inLog, 1)
	for i := 0; atomic.LoadInt32(&l.e.hold) != 0 && i < 20000; i++ {
		time.Sleep(100 * time.Microsecond)
	}
	atomic.AddInt32(&l.e.inLog, -1)
}
func (l c20holdLog) Debug(string, ...interface{})   { l.wait() }
func (l c20holdLog) Info(string, ...interface{})    { l.wait() }
func (l c20holdLog) Error(string, ...interface{})   { l.wait() }
func (l c20holdLog) With(...interface{}) log.Logger { return l }

// c20channels: the four request channels with the capacities the real newManager gives them
func c20channels() (chan event.LeaseWon, chan mtypes.LeaseID, chan manifestRequest, chan []byte) {
	svc := &service{session: c20session{&c20env{}}, bus: c20bus{&c20env{}}, lc: lifecycle.New(), managerch: make(chan *manager, 1), hostnameService: c20hostnames{}}
	if !verif_Symbolic() {
		svc.lc.ShutdownInitiated(nil) // the throw-away manager stops as soon as it looks
	}
	mm := newManager(svc, dtypes.DeploymentID{Owner: "o", DSeq: 9})
	if verif_Symbolic() {
		verif_DropTasks()
	} else {
		select {
		case <-mm.lc.Done():
		case <-time.After(3 * time.Second):
		}
		svc.lc.ShutdownCompleted()
	}
	return make(chan event.LeaseWon, cap(mm.leasech)), make(chan mtypes.LeaseID, cap(mm.rmleasech)), make(chan manifestRequest, cap(mm.manifestch)), make(chan []byte, cap(mm.updatech))
}

type c20session struct{ e *c20env }

func (s c20session) Log() log.Logger                  { return log.NewNopLogger() }
func (s c20session) Client() client.Client            { return c20client{s.e} }
func (s c20session) Provider() *ptypes.Provider       { return &ptypes.Provider{Owner: "p"} }
func (s c20session) ForModule(string) session.Session { return s }

type c20client struct{ e *c20env }

func (c c20client) Query() client.QueryClient { return c20query{e: c.e} }
func (c c20client) Tx() broadcaster.Client    { return nil }

type c20query struct {
	client.QueryClient
	e *c20env
}

func (q c20query) Deployment(ctx context.Context, in *dtypes.QueryDeploymentRequest, opts ...grpc.CallOption) (*dtypes.QueryDeploymentResponse, error) {
	if verif_Gate("FetchDeployment", 2) == 1 {
		return nil, errors.New("fetch failed")
	}
	q.e.fetchOK = true
	g := dtypes.Group{GroupID: dtypes.MakeGroupID(q.e.dep, 1), State: dtypes.GroupOpen, GroupSpec: dtypes.GroupSpec{Name: "g",
		Resources: []dtypes.Resource{{Resources: func() atypes.ResourceUnits {
			u := c20units()
			u.Endpoints = []atypes.Endpoint{{Kind: atypes.Endpoint_RANDOM_PORT}}
			return u
		}(), Count: 1, Price: sdk.NewInt64Coin("uakt", 1)}}}}
	return &dtypes.QueryDeploymentResponse{
		Deployment: dtypes.Deployment{DeploymentID: q.e.dep, State: dtypes.DeploymentActive, Version: c20version(q.e.manifests[0])},
		Groups:     []dtypes.Group{g},
	}, nil
}

type c20bus struct{ e *c20env }

func (b c20bus) Publish(ev pubsub.Event) error {
	if mr, ok := ev.(event.ManifestReceived); ok {
		b.e.published = append(b.e.published, mr)
		b.e.pubLeases = append(b.e.pubLeases, b.e.nleases)
	}
	return nil
}
func (b c20bus) Subscribe() (pubsub.Subscriber, error) { return nil, errors.New("no") }
func (b c20bus) Close()                                {}
func (b c20bus) Done() <-chan struct{}                 { return nil }

type c20hostnames struct{}

func (c20hostnames) ReserveHostnames([]string, dtypes.DeploymentID) <-chan error { return nil }
func (c20hostnames) ReleaseHostnames([]string)                                   {}
func (c20hostnames) CanReserveHostnames([]string, dtypes.DeploymentID) <-chan error {
	ch := make(chan error, 1)
	ch <- nil
	return ch
}

func c20new() (*c20env, *manager, chan *manager) {
	e := &c20env{dep: dtypes.DeploymentID{Owner: "o", DSeq: 1}}
	for k := 0; k < 3; k++ {
		e.manifests = append(e.manifests, c20manifest(k))
	}
	leasech, rmleasech, manifestch, updatech := c20channels()
	m := &manager{
		daddr: e.dep, session: c20session{e}, bus: c20bus{e},
		leasech: leasech, rmleasech: rmleasech, manifestch: manifestch, updatech: updatech,
		log: log.NewNopLogger(), lc: lifecycle.New(), hostnameService: c20hostnames{},
	}
	if !verif_Symbolic() {
		m.log = c20holdLog{e}
	}
	return e, m, make(chan *manager, 1)
}

func (e *c20env) lease(i int) event.LeaseWon {
	g := &dtypes.Group{GroupID: dtypes.MakeGroupID(e.dep, 1), GroupSpec: dtypes.GroupSpec{Name: "g"}}
	return event.LeaseWon{LeaseID: mtypes.LeaseID{Owner: "o", DSeq: 1, GSeq: 1, OSeq: uint32(i + 1), Provider: "p"}, Group: g}
}

func (e *c20env) request(kind int) manifestRequest {
	ch := make(chan error, 1)
	e.replies = append(e.replies, ch)
	e.kinds = append(e.kinds, kind)
	e.afterUpd = append(e.afterUpd, e.updated)
	mf := e.manifests[kind]
	return manifestRequest{value: &submitRequest{Deployment: e.dep, Manifest: mf}, ch: ch, ctx: context.Background()}
}

func c20oracle(e *c20env, terminated bool, idle bool) {
	verif_Assert(!e.hang, "C20 the manifest manager never hangs")
	if terminated || idle {
		for i, ch := range e.replies {
			verif_Assert(len(ch) == 1, "C20 every manifest submission receives exactly one reply")
			if len(ch) != 1 {
				continue
			}
			r := <-ch
			ch <- r
			// version rule (C10): the expected version is the last update received, else the chain's
			switch {
			case r == nil:
				verif_Assert(e.kinds[i] != 2, "C20 a structurally invalid manifest is never accepted")
				if e.afterUpd[i] {
					verif_Assert(e.kinds[i] == 1, "C10 after a version update only a manifest with the updated version is accepted")
					verif_Assert(e.kinds[i] == 1, "C20 only a validated manifest is accepted and announced: a manifest of a superseded version does not pass validation")
				}
			case errors.Is(r, ErrManifestVersion):
				if e.afterUpd[i] {
					verif_Assert(e.kinds[i] != 1, "C10 a manifest matching the most recently announced version is not rejected for its version")
				} else if !e.updated {
					verif_Assert(e.kinds[i] != 0, "C10 a manifest matching the chain's version is not rejected for its version")
				}
			}
		}
	}
	for i, ev := range e.published {
		verif_Assert(e.pubLeases[i] >= 1, "C20 a manifest is announced only while a lease for the deployment is held")
		verif_Assert(ev.Deployment != nil && e.fetchOK, "C20 a manifest is announced only after the chain data was fetched")
		verif_Assert(ev.Manifest != nil && len(*ev.Manifest) == 1 && len((*ev.Manifest)[0].Services) == 1, "C20 only a validated manifest is announced")
	}
}

func c20symbolic(steps int) {
	e, m, donech := c20new()
	verif_StubFunc("ManifestVersion", func(mf amanifest.Manifest) ([]byte, error) { return c20version(mf), nil })
	nl, nr := 0, 0
	verif_EnvChan(m.leasech, "lease", 2, func() interface{} {
		verif_Pick("lease", 1)
		nl++
		e.nleases++
		return e.lease(nl - 1)
	})
	verif_EnvChan(m.rmleasech, "rmlease", 1, func() interface{} {
		verif_Pick("rmlease", 1)
		if e.nleases > 0 {
			e.nleases--
		}
		return e.lease(0).LeaseID
	})
	verif_EnvChan(m.manifestch, "manifest", 2, func() interface{} {
		nr++
		return e.request(verif_Pick("manifest", 3))
	})
	verif_EnvChan(m.updatech, "update", 1, func() interface{} {
		verif_Pick("update", 1)
		e.updated = true
		return c20version(e.manifests[1])
	})
	// the manifest service calls handleLease / removeLease / handleManifest / handleUpdate: with a
	// buffered request channel such a call returns when the request is queued
	verif_EnvCaller(m.leasech)
	verif_EnvCaller(m.rmleasech)
	verif_EnvCaller(m.manifestch)
	verif_EnvCaller(m.updatech)
	verif_EnvFinal(m.lc.ShutdownRequest(), "shutdown", 1, func() interface{} { verif_Pick("shutdown", 1); return error(nil) })
	verif_OnQuiescent(func() { verif_Reach("idle"); c20oracle(e, false, true) })
	verif_Steps(steps)
	m.run(donech)
	verif_Reach("returned")
	c20oracle(e, true, false)
}

func c20native() {
	verif_LoopReset()
	e, m, donech := c20new()
	done := make(chan struct{})
	go func() { m.run(donech); close(done) }()
	nl := 0
	sawShutdown := false
	send := func(f func() bool) {
		deadline := time.After(time.Second)
		for {
			if f() {
				return
			}
			select {
			case <-done:
				return
			case <-deadline:
				return
			default:
				time.Sleep(time.Millisecond)
			}
		}
	}
	// deliver one request; wait: keep trying for up to a second (the manager takes it when it looks)
	deliver := func(kind string, val int) {
		switch kind {
		case "lease":
			ev := e.lease(nl)
			nl++
			send(func() bool {
				select {
				case m.leasech <- ev:
					e.nleases++
					return true
				default:
					return false
				}
			})
		case "rmlease":
			send(func() bool {
				select {
				case m.rmleasech <- e.lease(0).LeaseID:
					if e.nleases > 0 {
						e.nleases--
					}
					return true
				default:
					return false
				}
			})
		case "manifest":
			req := e.request(val)
			send(func() bool {
				select {
				case m.manifestch <- req:
					return true
				default:
					return false
				}
			})
		case "update":
			v := c20version(e.manifests[1])
			send(func() bool {
				select {
				case m.updatech <- v:
					e.updated = true
					return true
				default:
					return false
				}
			})
		}
	}
	sched := verif_Schedule()
	queued := func(i int) bool { return i >= 0 && i+1 < len(sched) && strings.HasPrefix(sched[i+1], "queued:") }
	request := func(k string) bool { return k == "lease" || k == "rmlease" || k == "manifest" || k == "update" }
	for i := 0; i < len(sched); i++ {
		kind, name, val := verif_Step(sched[i])
		if kind == "queued" {
			continue
		}
		holding := atomic.LoadInt32(&e.hold) != 0
		if holding && request(kind) && !queued(i) {
			// the request that arrives together with the queued one(s): sent while the manager is
			// still busy, so that both are there when it next looks
			k, v := kind, val
			go deliver(k, v)
			time.Sleep(3 * time.Millisecond)
			atomic.StoreInt32(&e.hold, 0)
			verif_Settle()
			continue
		}
		if holding && kind == "op" {
			// an operation completes while the manager is still busy: its result and the queued
			// request are both there when the manager next looks
			verif_Release(name, val)
			time.Sleep(5 * time.Millisecond)
			atomic.StoreInt32(&e.hold, 0)
			verif_Settle()
			continue
		}
		if holding && !request(kind) {
			atomic.StoreInt32(&e.hold, 0)
			holding = false
		}
		if !holding && request(kind) && !queued(i) && queued(i+1) {
			// the next request will be QUEUED while the manager is busy handling this one
			atomic.StoreInt32(&e.hold, 1)
		}
		switch kind {
		case "op":
			verif_Release(name, val)
		case "shutdown":
			sawShutdown = true
			go m.lc.ShutdownAsync(nil)
		default:
			deliver(kind, val)
		}
		if atomic.LoadInt32(&e.hold) != 0 {
			for w := 0; atomic.LoadInt32(&e.inLog) == 0 && w < 300; w++ {
				time.Sleep(100 * time.Microsecond)
			}
			continue
		}
		verif_Settle()
	}
	atomic.StoreInt32(&e.hold, 0)
	verif_ReleaseAll()
	returned := false
	select {
	case <-done:
		returned = true
	case <-time.After(300 * time.Millisecond):
	}
	if returned {
		verif_Reach("returned")
		c20oracle(e, true, false)
		return
	}
	verif_Reach("idle")
	c20oracle(e, false, true)
	if !sawShutdown {
		go m.lc.ShutdownAsync(nil)
	}
	select {
	case <-done:
	case <-time.After(3 * time.Second):
		e.hang = true
		c20oracle(e, false, false)
	}
}

func c20(steps int) {
	if verif_Symbolic() {
		c20symbolic(steps)
		return
	}
	// with buffered request channels the manager's select may pick either of two things that are
	// ready at once: the native run is repeated so that the schedule the engine found shows up
	reps := 1
	if a, b, c, d := c20channels(); cap(a)+cap(b)+cap(c)+cap(d) > 0 {
		reps = 16
	}
	for i := 0; i < reps; i++ {
		c20native()
	}
}

func Harness_C20_5() { c20(5) }
func Harness_C20_6() { c20(6) }
func Harness_C20_7() { c20(7) }
