package manifest

//verif:pkg provider/manifest

// C20: the real manifest (*manager).run loop (validateRequests, validateRequest, emitReceivedEvents,
// fillAllRequests, maybeFetchData, maybeScheduleStop) against an environment that delivers lease
// notifications, manifest submissions (valid / wrong version / invalid), version updates, lease
// removals, chain-data fetch completions or failures and shutdown in every scheduler-chosen order.

import (
	"context"
	"errors"
	"time"

	lifecycle "github.com/boz/go-lifecycle"
	sdk "github.com/cosmos/cosmos-sdk/types"
	"github.com/tendermint/tendermint/libs/log"
	"google.golang.org/grpc"

	"github.com/ovrclk/akash/client"
	"github.com/ovrclk/akash/client/broadcaster"
	amanifest "github.com/ovrclk/akash/manifest"
	"github.com/ovrclk/akash/provider/event"
	"github.com/ovrclk/akash/provider/session"
	"github.com/ovrclk/akash/pubsub"
	"github.com/ovrclk/akash/sdl"
	atypes "github.com/ovrclk/akash/types"
	dtypes "github.com/ovrclk/akash/x/deployment/types"
	mtypes "github.com/ovrclk/akash/x/market/types"
	ptypes "github.com/ovrclk/akash/x/provider/types"
)

type c20env struct {
	replies   []chan error // one capacity-1 reply channel per submitted request
	kinds     []int
	afterUpd  []bool // submitted after the version update had been delivered
	updated   bool
	published []event.ManifestReceived
	pubLeases []int
	nleases   int
	fetchOK   bool
	dep       dtypes.DeploymentID
	manifests []amanifest.Manifest
	hang      bool
}

func c20units() atypes.ResourceUnits {
	return atypes.ResourceUnits{
		CPU:     &atypes.CPU{Units: atypes.NewResourceValue(100)},
		Memory:  &atypes.Memory{Quantity: atypes.NewResourceValue(64 << 20)},
		Storage: &atypes.Storage{Quantity: atypes.NewResourceValue(64 << 20)},
	}
}

// manifest kinds: 0 valid (version A), 1 valid content but another version (B), 2 structurally invalid
func c20manifest(kind int) amanifest.Manifest {
	svc := amanifest.Service{Name: "web", Image: "img-a", Resources: c20units(), Count: 1,
		Expose: []amanifest.ServiceExpose{{Port: 8080, Proto: amanifest.TCP, Global: true}}}
	switch kind {
	case 1:
		svc.Image = "img-b"
	case 2:
		return amanifest.Manifest{{Name: "g"}}
	}
	return amanifest.Manifest{{Name: "g", Services: []amanifest.Service{svc}}}
}

func c20version(m amanifest.Manifest) []byte {
	if verif_Symbolic() {
		// the hash (json + SHA-256) is outside the encodable fragment: in the engine the version
		// of a manifest is an injective tag of its content
		if len(m) == 0 || len(m[0].Services) == 0 {
			return []byte("empty")
		}
		return []byte(m[0].Services[0].Image)
	}
	v, err := sdl.ManifestVersion(m)
	if err != nil {
		panic(err)
	}
	return v
}

type c20session struct{ e *c20env }

func (s c20session) Log() log.Logger                  { return log.NewNopLogger() }
func (s c20session) Client() client.Client            { return c20client{s.e} }
func (s c20session) Provider() *ptypes.Provider       { return &ptypes.Provider{Owner: "p"} }
func (s c20session) ForModule(string) session.Session { return s }

type c20client struct{ e *c20env }

func (c c20client) Query() client.QueryClient { return c20query{e: c.e} }
func (c c20client) Tx() broadcaster.Client     { return nil }

type c20query struct {
	client.QueryClient
	e *c20env
}

func (q c20query) Deployment(ctx context.Context, in *dtypes.QueryDeploymentRequest, opts ...grpc.CallOption) (*dtypes.QueryDeploymentResponse, error) {
	if verif_Gate("FetchDeployment", 2) == 1 {
		return nil, errors.New("fetch failed")
	}
	q.e.fetchOK = true
	g := dtypes.Group{GroupID: dtypes.MakeGroupID(q.e.dep, 1), State: dtypes.GroupOpen, GroupSpec: dtypes.GroupSpec{Name: "g",
		Resources: []dtypes.Resource{{Resources: func() atypes.ResourceUnits {
			u := c20units()
			u.Endpoints = []atypes.Endpoint{{Kind: atypes.Endpoint_RANDOM_PORT}}
			return u
		}(), Count: 1, Price: sdk.NewInt64Coin("uakt", 1)}}}}
	return &dtypes.QueryDeploymentResponse{
		Deployment: dtypes.Deployment{DeploymentID: q.e.dep, State: dtypes.DeploymentActive, Version: c20version(q.e.manifests[0])},
		Groups:     []dtypes.Group{g},
	}, nil
}

type c20bus struct{ e *c20env }

func (b c20bus) Publish(ev pubsub.Event) error {
	if mr, ok := ev.(event.ManifestReceived); ok {
		b.e.published = append(b.e.published, mr)
		b.e.pubLeases = append(b.e.pubLeases, b.e.nleases)
	}
	return nil
}
func (b c20bus) Subscribe() (pubsub.Subscriber, error) { return nil, errors.New("no") }
func (b c20bus) Close()                                {}
func (b c20bus) Done() <-chan struct{}                 { return nil }

type c20hostnames struct{}

func (c20hostnames) ReserveHostnames([]string, dtypes.DeploymentID) <-chan error { return nil }
func (c20hostnames) ReleaseHostnames([]string)                                   {}
func (c20hostnames) CanReserveHostnames([]string, dtypes.DeploymentID) <-chan error {
	ch := make(chan error, 1)
	ch <- nil
	return ch
}

func c20new() (*c20env, *manager, chan *manager) {
	e := &c20env{dep: dtypes.DeploymentID{Owner: "o", DSeq: 1}}
	for k := 0; k < 3; k++ {
		e.manifests = append(e.manifests, c20manifest(k))
	}
	m := &manager{
		daddr: e.dep, session: c20session{e}, bus: c20bus{e},
		leasech: make(chan event.LeaseWon), rmleasech: make(chan mtypes.LeaseID), manifestch: make(chan manifestRequest), updatech: make(chan []byte),
		log: log.NewNopLogger(), lc: lifecycle.New(), hostnameService: c20hostnames{},
	}
	return e, m, make(chan *manager, 1)
}

func (e *c20env) lease(i int) event.LeaseWon {
	g := &dtypes.Group{GroupID: dtypes.MakeGroupID(e.dep, 1), GroupSpec: dtypes.GroupSpec{Name: "g"}}
	return event.LeaseWon{LeaseID: mtypes.LeaseID{Owner: "o", DSeq: 1, GSeq: 1, OSeq: uint32(i + 1), Provider: "p"}, Group: g}
}

func (e *c20env) request(kind int) manifestRequest {
	ch := make(chan error, 1)
	e.replies = append(e.replies, ch)
	e.kinds = append(e.kinds, kind)
	e.afterUpd = append(e.afterUpd, e.updated)
	mf := e.manifests[kind]
	return manifestRequest{value: &submitRequest{Deployment: e.dep, Manifest: mf}, ch: ch, ctx: context.Background()}
}

func c20oracle(e *c20env, terminated bool, idle bool) {
	verif_Assert(!e.hang, "C20 the manifest manager never hangs")
	if terminated || idle {
		for i, ch := range e.replies {
			verif_Assert(len(ch) == 1, "C20 every manifest submission receives exactly one reply")
			if len(ch) != 1 {
				continue
			}
			r := <-ch
			ch <- r
			// version rule (C10): the expected version is the last update received, else the chain's
			switch {
			case r == nil:
				verif_Assert(e.kinds[i] != 2, "C20 a structurally invalid manifest is never accepted")
				if e.afterUpd[i] {
					verif_Assert(e.kinds[i] == 1, "C10 after a version update only a manifest with the updated version is accepted")
					verif_Assert(e.kinds[i] == 1, "C20 only a validated manifest is accepted and announced: a manifest of a superseded version does not pass validation")
				}
			case errors.Is(r, ErrManifestVersion):
				if e.afterUpd[i] {
					verif_Assert(e.kinds[i] != 1, "C10 a manifest matching the most recently announced version is not rejected for its version")
				} else if !e.updated {
					verif_Assert(e.kinds[i] != 0, "C10 a manifest matching the chain's version is not rejected for its version")
				}
			}
		}
	}
	for i, ev := range e.published {
		verif_Assert(e.pubLeases[i] >= 1, "C20 a manifest is announced only while a lease for the deployment is held")
		verif_Assert(ev.Deployment != nil && e.fetchOK, "C20 a manifest is announced only after the chain data was fetched")
		verif_Assert(ev.Manifest != nil && len(*ev.Manifest) == 1 && len((*ev.Manifest)[0].Services) == 1, "C20 only a validated manifest is announced")
	}
}

func c20symbolic(steps int) {
	e, m, donech := c20new()
	verif_StubFunc("ManifestVersion", func(mf amanifest.Manifest) ([]byte, error) { return c20version(mf), nil })
	nl, nr := 0, 0
	verif_EnvChan(m.leasech, "lease", 2, func() interface{} {
		verif_Pick("lease", 1)
		nl++
		e.nleases++
		return e.lease(nl - 1)
	})
	verif_EnvChan(m.rmleasech, "rmlease", 1, func() interface{} {
		verif_Pick("rmlease", 1)
		if e.nleases > 0 {
			e.nleases--
		}
		return e.lease(0).LeaseID
	})
	verif_EnvChan(m.manifestch, "manifest", 2, func() interface{} {
		nr++
		return e.request(verif_Pick("manifest", 3))
	})
	verif_EnvChan(m.updatech, "update", 1, func() interface{} {
		verif_Pick("update", 1)
		e.updated = true
		return c20version(e.manifests[1])
	})
	verif_EnvFinal(m.lc.ShutdownRequest(), "shutdown", 1, func() interface{} { verif_Pick("shutdown", 1); return error(nil) })
	verif_OnQuiescent(func() { verif_Reach("idle"); c20oracle(e, false, true) })
	verif_Steps(steps)
	m.run(donech)
	verif_Reach("returned")
	c20oracle(e, true, false)
}

func c20native() {
	verif_LoopReset()
	e, m, donech := c20new()
	done := make(chan struct{})
	go func() { m.run(donech); close(done) }()
	nl := 0
	sawShutdown := false
	send := func(f func() bool) {
		deadline := time.After(time.Second)
		for {
			if f() {
				return
			}
			select {
			case <-done:
				return
			case <-deadline:
				return
			default:
				time.Sleep(time.Millisecond)
			}
		}
	}
	for _, s := range verif_Schedule() {
		kind, name, val := verif_Step(s)
		switch kind {
		case "op":
			verif_Release(name, val)
		case "lease":
			ev := e.lease(nl)
			nl++
			send(func() bool {
				select {
				case m.leasech <- ev:
					e.nleases++
					return true
				default:
					return false
				}
			})
		case "rmlease":
			send(func() bool {
				select {
				case m.rmleasech <- e.lease(0).LeaseID:
					if e.nleases > 0 {
						e.nleases--
					}
					return true
				default:
					return false
				}
			})
		case "manifest":
			req := e.request(val)
			send(func() bool {
				select {
				case m.manifestch <- req:
					return true
				default:
					return false
				}
			})
		case "update":
			v := c20version(e.manifests[1])
			send(func() bool {
				select {
				case m.updatech <- v:
					e.updated = true
					return true
				default:
					return false
				}
			})
		case "shutdown":
			sawShutdown = true
			go m.lc.ShutdownAsync(nil)
		}
		verif_Settle()
	}
	verif_ReleaseAll()
	returned := false
	select {
	case <-done:
		returned = true
	case <-time.After(300 * time.Millisecond):
	}
	if returned {
		verif_Reach("returned")
		c20oracle(e, true, false)
		return
	}
	verif_Reach("idle")
	c20oracle(e, false, true)
	if !sawShutdown {
		go m.lc.ShutdownAsync(nil)
	}
	select {
	case <-done:
	case <-time.After(3 * time.Second):
		e.hang = true
		c20oracle(e, false, false)
	}
}

func c20(steps int) {
	if verif_Symbolic() {
		c20symbolic(steps)
	} else {
		c20native()
	}
}

func Harness_C20_5() { c20(5) }
func Harness_C20_6() { c20(6) }
func Harness_C20_7() { c20(7) }
