package manifest

//verif:pkg provider/manifest

// C20, submitter side: the real (*service).Submit hands the manager a reply channel on which the
// manager's single reply never blocks, even when the submitter has already gone away (context
// cancelled after the request was accepted).  Otherwise the manager - which replies exactly once
// per request (manager.go harnesses) - would hang forever and with it every later submission.

import (
	"time"

	lifecycle "github.com/boz/go-lifecycle"

	dtypes "github.com/ovrclk/akash/x/deployment/types"
)

func Harness_C20_submit() {
	s := &service{lc: lifecycle.New(), mreqch: make(chan manifestRequest)}
	ctx, cancel := verif_CancelCtx()
	cancel() // the submitter gives up; whether before or after the request is accepted is the scheduler's choice
	did := dtypes.DeploymentID{Owner: verif_Addr(0), DSeq: 7}
	var got []manifestRequest
	if verif_Symbolic() {
		verif_EnvSinkFn(s.mreqch, "accept", func(v interface{}) {
			verif_Pick("accepted", 1) // recorded in the schedule for the native replay
			got = append(got, v.(manifestRequest))
		})
		_ = s.Submit(ctx, did, nil)
	} else {
		// natively both cases of Submit's first select are ready: when the schedule says the request
		// was accepted, repeat until it is; otherwise nobody receives
		accept := false
		for _, st := range verif_Schedule() {
			if kind, _, _ := verif_Step(st); kind == "accepted" {
				accept = true
			}
		}
		if !accept {
			_ = s.Submit(ctx, did, nil)
		}
		for i := 0; accept && i < 200 && len(got) == 0; i++ {
			done := make(chan struct{})
			go func() {
				select {
				case r := <-s.mreqch:
					got = append(got, r)
				case <-time.After(20 * time.Millisecond):
				}
				close(done)
			}()
			time.Sleep(2 * time.Millisecond) // let the receiver reach its select
			_ = s.Submit(ctx, did, nil)
			<-done
		}
	}
	if len(got) == 0 {
		verif_Reach("gave-up-before-accept")
		return
	}
	verif_Reach("accepted-then-abandoned")
	for _, r := range got {
		delivered := false
		select {
		case r.ch <- nil:
			delivered = true
		default:
		}
		verif_Assert(delivered, "C20 the manager never hangs: the reply to a submission whose submitter has gone away is delivered without blocking")
	}
}
