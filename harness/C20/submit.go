package manifest

//verif:pkg provider/manifest

// C20, submitter side: the real (*service).Submit hands the manager a reply channel on which the
// manager's single reply never blocks, even when the submitter has already gone away (context
// cancelled after the request was accepted).  Otherwise the manager - which replies exactly once
// per request (manager.go harnesses) - would hang forever and with it every later submission.

import (
	"time"

	lifecycle "github.com/boz/go-lifecycle"
	"github.com/tendermint/tendermint/libs/log"

	dtypes "github.com/ovrclk/akash/x/deployment/types"
)

func Harness_C20_submit() {
	s := &service{lc: lifecycle.New(), mreqch: make(chan manifestRequest)}
	ctx, cancel := verif_CancelCtx()
	cancel() // the submitter gives up; whether before or after the request is accepted is the scheduler's choice
	did := dtypes.DeploymentID{Owner: verif_Addr(0), DSeq: 7}
	var got []manifestRequest
	if verif_Symbolic() {
		verif_EnvSinkFn(s.mreqch, "accept", func(v interface{}) {
			verif_Pick("accepted", 1) // recorded in the schedule for the native replay
			got = append(got, v.(manifestRequest))
		})
		_ = s.Submit(ctx, did, nil)
	} else {
		// natively both cases of Submit's first select are ready: when the schedule says the request
		// was accepted, repeat until it is; otherwise nobody receives
		accept := false
		for _, st := range verif_Schedule() {
			if kind, _, _ := verif_Step(st); kind == "accepted" {
				accept = true
			}
		}
		if !accept {
			_ = s.Submit(ctx, did, nil)
		}
		for i := 0; accept && i < 200 && len(got) == 0; i++ {
			done := make(chan struct{})
			go func() {
				select {
				case r := <-s.mreqch:
					got = append(got, r)
				case <-time.After(20 * time.Millisecond):
				}
				close(done)
			}()
			time.Sleep(2 * time.Millisecond) // let the receiver reach its select
			_ = s.Submit(ctx, did, nil)
			<-done
		}
	}
	if len(got) == 0 {
		verif_Reach("gave-up-before-accept")
		return
	}
	verif_Reach("accepted-then-abandoned")
	for _, r := range got {
		delivered := false
		select {
		case r.ch <- nil:
			delivered = true
		default:
		}
		verif_Assert(delivered, "C20 the manager never hangs: the reply to a submission whose submitter has gone away is delivered without blocking")
	}
}

// The service loop hands a submission to the deployment's manager with handleManifest.  A manager
// that has begun to stop (it no longer reads its channels, and it reports "done" to that very
// service loop before it is completely finished) must be answered for at once: the service loop
// may not wait for the manager, or both wait for each other forever.
func Harness_C20_handle_stopping() {
	m := &manager{manifestch: make(chan manifestRequest), updatech: make(chan []byte), log: log.NewNopLogger(), lc: lifecycle.New()}
	m.lc.ShutdownInitiated(nil) // the manager is stopping; ShutdownCompleted comes only after the service loop has taken its "done"
	reply := make(chan error, 1)
	returned := make(chan struct{})
	if verif_Symbolic() {
		verif_OnQuiescent(func() { // the call waits for something that never comes
			verif_Reach("handled")
			verif_Assert(false, "C20 the manifest manager never hangs: a submission for a stopping manager is answered without waiting for it")
		})
		m.handleManifest(manifestRequest{value: &submitRequest{}, ch: reply, ctx: nil})
		m.handleUpdate([]byte{1})
		close(returned)
	} else {
		go func() {
			m.handleManifest(manifestRequest{value: &submitRequest{}, ch: reply, ctx: nil})
			m.handleUpdate([]byte{1})
			close(returned)
		}()
		select {
		case <-returned:
		case <-time.After(500 * time.Millisecond):
		}
	}
	done := false
	select {
	case <-returned:
		done = true
	default:
	}
	verif_Reach("handled")
	verif_Assert(done, "C20 the manifest manager never hangs: a submission for a stopping manager is answered without waiting for it")
	verif_Assert(len(reply) == 1, "C20 every manifest submission receives exactly one reply")
}
