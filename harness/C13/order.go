package bidengine

//verif:pkg provider/bidengine

// C13: the real (*order).run event loop against an environment that delivers chain events,
// completes or fails every asynchronous step, fires the bid timeout and requests shutdown in
// every order the scheduler allows within the step budget.  The oracle reads only the log of
// calls the loop made on its collaborators.

import (
	"context"
	"errors"
	"time"

	lifecycle "github.com/boz/go-lifecycle"
	sdk "github.com/cosmos/cosmos-sdk/types"
	"github.com/tendermint/tendermint/libs/log"
	"google.golang.org/grpc"

	"github.com/ovrclk/akash/client"
	"github.com/ovrclk/akash/client/broadcaster"
	ctypes "github.com/ovrclk/akash/provider/cluster/types"
	"github.com/ovrclk/akash/provider/session"
	"github.com/ovrclk/akash/pubsub"
	atypes "github.com/ovrclk/akash/types"
	audittypes "github.com/ovrclk/akash/x/audit/types"
	dtypes "github.com/ovrclk/akash/x/deployment/types"
	mtypes "github.com/ovrclk/akash/x/market/types"
	ptypes "github.com/ovrclk/akash/x/provider/types"
)

type c13call struct {
	what  string // Reserve, Unreserve, CreateBid, CloseBid, Publish
	ok    bool
	price sdk.Int
}

type c13env struct {
	calls  []c13call
	events chan pubsub.Event
	oid    mtypes.OrderID
	prov   sdk.AccAddress
	differ int     // which component distinguishes the "other" order of the event generator
	max    sdk.Int // order's maximum price
	bid    sdk.Int // price the strategy returns
}

func (e *c13env) add(c c13call) { e.calls = append(e.calls, c) }

// --- collaborators ---

type c13session struct{ e *c13env }

func (s c13session) Log() log.Logger                    { return log.NewNopLogger() }
func (s c13session) Client() client.Client              { return c13client{s.e} }
func (s c13session) ForModule(string) session.Session   { return s }
func (s c13session) Provider() *ptypes.Provider         { return &ptypes.Provider{Owner: s.e.prov.String()} }

type c13client struct{ e *c13env }

func (c c13client) Query() client.QueryClient { return c13query{e: c.e} }
func (c c13client) Tx() broadcaster.Client     { return c13tx{c.e} }

type c13query struct {
	client.QueryClient
	e *c13env
}

func (q c13query) Group(ctx context.Context, in *dtypes.QueryGroupRequest, opts ...grpc.CallOption) (*dtypes.QueryGroupResponse, error) {
	if verif_Gate("QueryGroup", 2) == 1 {
		return nil, errors.New("group query failed")
	}
	g := dtypes.Group{GroupID: q.e.oid.GroupID(), State: dtypes.GroupOpen, GroupSpec: c13spec(q.e.max)}
	return &dtypes.QueryGroupResponse{Group: g}, nil
}

func (q c13query) Bid(ctx context.Context, in *mtypes.QueryBidRequest, opts ...grpc.CallOption) (*mtypes.QueryBidResponse, error) {
	switch verif_Gate("QueryBid", 4) {
	case 1:
		return nil, errors.New("rpc error: bid not found in store")
	case 2:
		q.e.add(c13call{what: "LookupFailed"})
		return nil, errors.New("connection refused")
	case 3:
		q.e.add(c13call{what: "LookupFailed"})
		return nil, errors.New("rpc error: code = Unknown desc = 404 page not found") // not the market module's answer
	}
	q.e.add(c13call{what: "ExistingBid", ok: true})
	return &mtypes.QueryBidResponse{}, nil
}

type c13tx struct{ e *c13env }

func (t c13tx) Broadcast(ctx context.Context, msgs ...sdk.Msg) error {
	for _, m := range msgs {
		switch x := m.(type) {
		case *mtypes.MsgCreateBid:
			ok := verif_Gate("Broadcast:MsgCreateBid", 2) == 0
			t.e.add(c13call{what: "CreateBid", ok: ok, price: x.Price.Amount})
			if !ok {
				return errors.New("broadcast failed")
			}
		case *mtypes.MsgCloseBid:
			ok := verif_Gate("Broadcast:MsgCloseBid", 2) == 0
			t.e.add(c13call{what: "CloseBid", ok: ok})
			if !ok {
				return errors.New("broadcast failed")
			}
		}
	}
	return nil
}

type c13cluster struct{ e *c13env }

type c13reservation struct{ oid mtypes.OrderID }

func (r c13reservation) OrderID() mtypes.OrderID          { return r.oid }
func (r c13reservation) Resources() atypes.ResourceGroup { return nil }

func (c c13cluster) Reserve(oid mtypes.OrderID, rg atypes.ResourceGroup) (ctypes.Reservation, error) {
	ok := verif_Gate("Reserve", 2) == 0
	c.e.add(c13call{what: "Reserve", ok: ok})
	if !ok {
		return nil, errors.New("insufficient capacity")
	}
	return c13reservation{oid}, nil
}

func (c c13cluster) Unreserve(oid mtypes.OrderID) error {
	c.e.add(c13call{what: "Unreserve", ok: true})
	return nil
}

type c13pricing struct{ e *c13env }

func (p c13pricing) CalculatePrice(ctx context.Context, owner string, gspec *dtypes.GroupSpec) (sdk.Coin, error) {
	if verif_Gate("CalculatePrice", 2) == 1 {
		return sdk.Coin{}, errors.New("pricing failed")
	}
	return sdk.Coin{Denom: "uakt", Amount: p.e.bid}, nil
}

type c13bus struct{ e *c13env }

func (b c13bus) Publish(ev pubsub.Event) error          { b.e.add(c13call{what: "Publish", ok: true}); return nil }
func (b c13bus) Subscribe() (pubsub.Subscriber, error) { return nil, nil }
func (b c13bus) Close()                                {}
func (b c13bus) Done() <-chan struct{}                 { return nil }

type c13sub struct{ e *c13env }

func (s c13sub) Events() <-chan pubsub.Event           { return s.e.events }
func (s c13sub) Clone() (pubsub.Subscriber, error)     { return s, nil }
func (s c13sub) Close()                                {}
func (s c13sub) Done() <-chan struct{}                 { return nil }

type c13pass struct{}

func (c13pass) GetAuditorAttributeSignatures(string) ([]audittypes.Provider, error) { return nil, nil }

// the order's group: two resource records with different prices and replica counts, so the
// maximum price the chain agreed is the sum over records of unit price x count (10x1 + 30x3);
// max must be that sum (the harness states it independently of GroupSpec.Price)
func c13spec(max sdk.Int) dtypes.GroupSpec {
	unit := func(cpu uint64, count uint32, price int64) dtypes.Resource {
		return dtypes.Resource{
			Resources: atypes.ResourceUnits{
				CPU:     &atypes.CPU{Units: atypes.NewResourceValue(cpu)},
				Memory:  &atypes.Memory{Quantity: atypes.NewResourceValue(64 << 20)},
				Storage: &atypes.Storage{Quantity: atypes.NewResourceValue(64 << 20)},
			},
			Count: count,
			Price: sdk.Coin{Denom: "uakt", Amount: sdk.NewInt(price)},
		}
	}
	rest := max.SubRaw(10).QuoRaw(3).Int64()
	if 10+3*rest != max.Int64() {
		panic("c13spec: max must be 10 + 3k")
	}
	return dtypes.GroupSpec{Name: "g", Resources: []dtypes.Resource{unit(100, 1, 10), unit(50, 3, rest)}}
}

// event kinds: 0 lease-created for this order & this provider (won), 1 lease-created for this group
// & another provider (lost), 2 lease-created for another group, 3 order-closed for this order,
// 4 order-closed for another order, 5 unrelated event
func (e *c13env) mkEvent(kind int) pubsub.Event {
	other := sdk.AccAddress(make([]byte, 20))
	// another order: it differs from this one in exactly one component (which one is an input)
	otherOrder := e.oid
	switch e.differ {
	case 0:
		otherOrder.DSeq++
	case 1:
		otherOrder.GSeq++
	case 2:
		otherOrder.OSeq++
	case 3:
		otherOrder.Owner = verif_Addr(3) // another tenant's deployment created in the same block
	}
	switch kind {
	case 0:
		return mtypes.EventLeaseCreated{ID: mtypes.MakeLeaseID(mtypes.MakeBidID(e.oid, e.prov))}
	case 1:
		return mtypes.EventLeaseCreated{ID: mtypes.MakeLeaseID(mtypes.MakeBidID(e.oid, other))}
	case 2:
		return mtypes.EventLeaseCreated{ID: mtypes.MakeLeaseID(mtypes.MakeBidID(otherOrder, e.prov))}
	case 3:
		return mtypes.EventOrderClosed{ID: e.oid}
	case 4:
		return mtypes.EventOrderClosed{ID: otherOrder}
	}
	return mtypes.EventBidClosed{}
}

func c13new(maxOverBid bool) (*c13env, *order) {
	prov := make([]byte, 20)
	for i := range prov {
		prov[i] = 2
	}
	e := &c13env{events: make(chan pubsub.Event), prov: sdk.AccAddress(prov)}
	e.oid = mtypes.OrderID{Owner: verif_Addr(0), DSeq: 7, GSeq: 1, OSeq: 1}
	e.differ = verif_Choice("other-order-differs-in", 4)
	e.max = sdk.NewInt(100)
	e.bid = sdk.NewInt(60)
	if maxOverBid {
		e.bid = sdk.NewInt(101)
	}
	o := &order{
		orderID: e.oid,
		cfg:     Config{PricingStrategy: c13pricing{e}, Deposit: sdk.NewInt64Coin("uakt", 5), BidTimeout: time.Hour},
		session: c13session{e}, cluster: c13cluster{e}, bus: c13bus{e}, sub: c13sub{e},
		log: log.NewNopLogger(), lc: lifecycle.New(), pass: c13pass{},
	}
	return e, o
}

// ---- oracle on the call log ----

func c13oracle(e *c13env, returned bool) {
	verif_Assert(returned, "C13 order handling terminates")
	nCreate, nCloseBid, nReserveOK, nUnreserve := 0, 0, 0, 0
	won, placed, existing, existingSeen := false, false, false, false
	reservedBeforeBid := true
	seenReserveOK := false
	for _, c := range e.calls {
		switch c.what {
		case "Reserve":
			if existingSeen {
				// the reservation step starts only after the existing-bid answer was processed,
				// so from here on the loop knows about the bid it placed in an earlier session
				existing = true
			}
			if c.ok {
				nReserveOK++
				seenReserveOK = true
			}
		case "Unreserve":
			nUnreserve++
		case "CreateBid":
			nCreate++
			if !seenReserveOK {
				reservedBeforeBid = false
			}
			verif_Assert(c.price.LTE(e.max), "C13 a bid is never above the order's maximum price")
			if c.ok {
				placed = true
			}
		case "CloseBid":
			nCloseBid++
		case "ExistingBid":
			existingSeen = true
		case "Publish":
			won = true
		}
	}
	verif_Assert(nCreate <= 1, "C13 at most one bid is submitted per order")
	for _, c := range e.calls {
		if c.what == "LookupFailed" {
			// whether a bid from an earlier session exists is unknown: bidding now could be a second bid
			verif_Assert(nCreate == 0, "C13 at most one bid is submitted per order")
		}
	}
	verif_Assert(reservedBeforeBid, "C13 a bid is submitted only after resources were reserved")
	if !won {
		verif_Assert(nUnreserve >= nReserveOK, "C13 every reservation is released when the order ends without a won lease")
		if placed || existing {
			verif_Assert(nCloseBid >= 1, "C13 a close-bid is submitted for a placed bid when the order ends without a won lease")
		}
	}
}

func c13symbolic(existing bool, steps int, overBid bool) {
	e, o := c13new(overBid)
	verif_EnvChan(e.events, "events", c13events, func() interface{} { return e.mkEvent(verif_Pick("event", 6)) })
	verif_EnvFinal(o.lc.ShutdownRequest(), "shutdown", 1, func() interface{} { verif_Pick("shutdown", 1); return error(nil) })
	verif_Steps(steps)
	o.run(existing)
	verif_Reach("returned")
	c13oracle(e, true)
}

func c13native(existing bool, overBid bool) {
	verif_LoopReset()
	e, o := c13new(overBid)
	sched := verif_Schedule()
	for _, s := range sched {
		if s == "timer" {
			o.cfg.BidTimeout = 60 * time.Millisecond
		}
	}
	done := make(chan struct{})
	go func() { o.run(existing); close(done) }()
	finished := func() bool {
		select {
		case <-done:
			return true
		default:
			return false
		}
	}
	for _, s := range sched {
		kind, name, val := verif_Step(s)
		switch kind {
		case "op":
			verif_Release(name, val)
		case "event":
			select {
			case e.events <- e.mkEvent(val):
			case <-done:
			case <-time.After(time.Second):
			}
		case "shutdown":
			go o.lc.ShutdownAsync(nil)
		case "timer":
			time.Sleep(150 * time.Millisecond)
		}
		verif_Settle()
	}
	if !finished() {
		go o.lc.ShutdownAsync(nil)
	}
	verif_ReleaseAll()
	returned := false
	select {
	case <-done:
		returned = true
	case <-time.After(5 * time.Second):
	}
	verif_Reach("returned")
	c13oracle(e, returned)
}

func c13(existing bool, steps int, overBid bool) {
	if verif_Symbolic() {
		c13symbolic(existing, steps, overBid)
	} else {
		c13native(existing, overBid)
	}
}

func Harness_C13_fresh_7()     { c13(false, 7, false) }
func Harness_C13_fresh_9()     { c13(false, 9, false) }
func Harness_C13_existing_8()  { c13(true, 8, false) }
func Harness_C13_existing_10() { c13(true, 10, false) }
func Harness_C13_overbid_7()   { c13(false, 7, true) }

// number of chain events the environment may deliver (2; 3 in the *_e3 harnesses)
var c13events = 2

func c13e3(existing bool, steps int) {
	c13events = 3
	defer func() { c13events = 2 }()
	c13(existing, steps, false)
}
func Harness_C13_fresh_10_e3()    { c13e3(false, 10) }
func Harness_C13_existing_11_e3() { c13e3(true, 11) }
