package bidengine

// C13, service level: the real (*service).run loop that starts one order monitor per observed
// order (catch-up orders found at start-up, then order-created events, possibly delivered more
// than once while the order is being handled).
//
// Engine: newOrder is replaced by a model of the monitor's externally visible first effects
// (a monitor started with the existing-bid check queries the bid and stops bidding if it exists;
// otherwise it reserves and submits one bid) - the monitor's own loop is the subject of
// order.go's harnesses.  Natively the real newOrder and real monitors run against the same
// scripted collaborators.

import (
	"context"
	"errors"
	"time"

	lifecycle "github.com/boz/go-lifecycle"
	sdk "github.com/cosmos/cosmos-sdk/types"
	"github.com/tendermint/tendermint/libs/log"
	"google.golang.org/grpc"

	"github.com/ovrclk/akash/client"
	"github.com/ovrclk/akash/client/broadcaster"
	ctypes "github.com/ovrclk/akash/provider/cluster/types"
	"github.com/ovrclk/akash/provider/session"
	"github.com/ovrclk/akash/pubsub"
	atypes "github.com/ovrclk/akash/types"
	dtypes "github.com/ovrclk/akash/x/deployment/types"
	mtypes "github.com/ovrclk/akash/x/market/types"
	ptypes "github.com/ovrclk/akash/x/provider/types"
)

type c13sEnv struct {
	prov     sdk.AccAddress
	orders   []mtypes.OrderID // the universe: X, Y
	hasBid   []bool           // a bid of this provider already exists on chain
	reserves []int
	bids     []int
	events   chan pubsub.Event
}

func (e *c13sEnv) idx(oid mtypes.OrderID) int {
	for i, o := range e.orders {
		if o.Equals(oid) {
			return i
		}
	}
	return -1
}

type c13sSession struct{ e *c13sEnv }

func (s c13sSession) Log() log.Logger                  { return log.NewNopLogger() }
func (s c13sSession) Client() client.Client            { return c13sClient{s.e} }
func (s c13sSession) ForModule(string) session.Session { return s }
func (s c13sSession) Provider() *ptypes.Provider       { return &ptypes.Provider{Owner: s.e.prov.String()} }

type c13sClient struct{ e *c13sEnv }

func (c c13sClient) Query() client.QueryClient { return c13sQuery{e: c.e} }
func (c c13sClient) Tx() broadcaster.Client     { return c13sTx{c.e} }

type c13sQuery struct {
	client.QueryClient
	e *c13sEnv
}

func (q c13sQuery) Group(ctx context.Context, in *dtypes.QueryGroupRequest, opts ...grpc.CallOption) (*dtypes.QueryGroupResponse, error) {
	g := dtypes.Group{GroupID: in.ID, State: dtypes.GroupOpen, GroupSpec: c13spec(sdk.NewInt(100))}
	return &dtypes.QueryGroupResponse{Group: g}, nil
}

func (q c13sQuery) Bid(ctx context.Context, in *mtypes.QueryBidRequest, opts ...grpc.CallOption) (*mtypes.QueryBidResponse, error) {
	if i := q.e.idx(in.ID.OrderID()); i >= 0 && q.e.hasBid[i] {
		return &mtypes.QueryBidResponse{}, nil
	}
	return nil, errors.New("rpc error: bid not found in store")
}

type c13sTx struct{ e *c13sEnv }

func (t c13sTx) Broadcast(ctx context.Context, msgs ...sdk.Msg) error {
	for _, m := range msgs {
		if x, ok := m.(*mtypes.MsgCreateBid); ok {
			if i := t.e.idx(x.Order); i >= 0 {
				t.e.bids[i]++
			}
		}
	}
	return nil
}

type c13sCluster struct{ e *c13sEnv }

func (c c13sCluster) Reserve(oid mtypes.OrderID, rg atypes.ResourceGroup) (ctypes.Reservation, error) {
	if i := c.e.idx(oid); i >= 0 {
		c.e.reserves[i]++
	}
	return c13reservation{oid}, nil
}
func (c c13sCluster) Unreserve(oid mtypes.OrderID) error { return nil }

type c13sPricing struct{}

func (c13sPricing) CalculatePrice(ctx context.Context, owner string, gspec *dtypes.GroupSpec) (sdk.Coin, error) {
	return sdk.NewInt64Coin("uakt", 60), nil
}

type c13sSub struct{ e *c13sEnv }

func (s c13sSub) Events() <-chan pubsub.Event       { return s.e.events }
func (s c13sSub) Clone() (pubsub.Subscriber, error) { return s, nil }
func (s c13sSub) Close()                            {}
func (s c13sSub) Done() <-chan struct{}             { return nil }

func (e *c13sEnv) event(kind int) pubsub.Event {
	switch kind {
	case 0:
		return mtypes.EventOrderCreated{ID: e.orders[0]}
	case 1:
		return mtypes.EventOrderCreated{ID: e.orders[1]}
	}
	return mtypes.EventBidClosed{}
}

func (e *c13sEnv) oracle() {
	for i := range e.orders {
		verif_Assert(e.bids[i] <= 1, "C13 at most one bid is submitted per order")
		verif_Assert(e.reserves[i] <= 1, "C13 at most one bid is submitted per order") // one monitor, hence one reservation, per observed order
		if e.hasBid[i] && e.reserves[i] > 0 {
			verif_Assert(e.bids[i] == 0, "C13 at most one bid is submitted per order") // the bid placed in an earlier session counts
		}
	}
}

func c13service(steps int) {
	prov := make([]byte, 20)
	for i := range prov {
		prov[i] = 2
	}
	e := &c13sEnv{prov: sdk.AccAddress(prov), events: make(chan pubsub.Event), reserves: make([]int, 2), bids: make([]int, 2)}
	e.orders = []mtypes.OrderID{{Owner: verif_Addr(0), DSeq: 7, GSeq: 1, OSeq: 1}, {Owner: verif_Addr(0), DSeq: 8, GSeq: 1, OSeq: 1}}
	// catch-up: order X was open when the provider started, with or without a bid from an earlier session
	catchup := verif_Choice("catch-up-order", 2) == 1
	e.hasBid = []bool{catchup && verif_Choice("existing-bid", 2) == 1, false}
	var existing []mtypes.OrderID
	if catchup {
		existing = append(existing, e.orders[0])
	}
	cfg := Config{PricingStrategy: c13sPricing{}, Deposit: sdk.NewInt64Coin("uakt", 5), BidTimeout: time.Hour}
	s := &service{
		session: c13sSession{e}, cluster: c13sCluster{e}, cfg: cfg,
		statusch: make(chan chan<- *Status), orders: make(map[string]*order), drainch: make(chan *order), lc: lifecycle.New(),
	}
	if verif_Symbolic() {
		s.sub = c13sSub{e}
		verif_StubFunc("newOrder", func(svc *service, oid mtypes.OrderID, cfg Config, pass ProviderAttrSignatureService, checkForExistingBid bool) (*order, error) {
			o := &order{orderID: oid, cfg: cfg, session: svc.session, cluster: svc.cluster, lc: lifecycle.New()}
			// the monitor's first visible effects
			if checkForExistingBid {
				if _, err := svc.session.Client().Query().Bid(context.Background(), &mtypes.QueryBidRequest{ID: mtypes.MakeBidID(oid, e.prov)}); err == nil {
					return o, nil // bid exists: the monitor only waits for the outcome
				}
			}
			if _, err := svc.cluster.Reserve(oid, nil); err == nil {
				_ = svc.session.Client().Tx().Broadcast(context.Background(), &mtypes.MsgCreateBid{Order: oid, Provider: e.prov.String()})
			}
			return o, nil
		})
		verif_EnvChan(e.events, "event", 4, func() interface{} { return e.event(verif_Pick("event", 3)) })
		verif_OnQuiescent(func() {
			verif_Reach("observed")
			e.oracle()
		})
		verif_Steps(steps)
		s.run(existing)
		return
	}
	// native: real bus, real monitors
	bus := pubsub.NewBus()
	defer bus.Close()
	sub, err := bus.Subscribe()
	if err != nil {
		panic(err)
	}
	s.bus, s.sub = bus, sub
	pass, err := newProviderAttrSignatureService(s.session, bus)
	if err != nil {
		panic(err)
	}
	s.pass = pass
	go s.run(existing)
	time.Sleep(100 * time.Millisecond)
	for _, st := range verif_Schedule() {
		kind, _, val := verif_Step(st)
		if kind == "event" {
			_ = bus.Publish(e.event(val))
			time.Sleep(100 * time.Millisecond)
		}
	}
	time.Sleep(200 * time.Millisecond)
	verif_Reach("observed")
	e.oracle()
	s.lc.ShutdownAsync(nil)
}

func Harness_C13_service_3() { c13service(3) }
func Harness_C13_service_4() { c13service(4) }
