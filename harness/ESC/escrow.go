package escrow

//verif:pkg x/escrow

// Keeper-level inductive step for the escrow module (C01, C03; C02 at record level):
// arbitrary pre-state satisfying INV, one public keeper operation with arbitrary
// arguments at an arbitrary height >= every SettledAt, then INV + step post-conditions.

import (
	sdk "github.com/cosmos/cosmos-sdk/types"
	"github.com/ovrclk/akash/x/escrow/keeper"
	"github.com/ovrclk/akash/x/escrow/types"
)

const escDenom = "uakt"

func escCoin(a sdk.Int) sdk.Coin { return sdk.Coin{Denom: escDenom, Amount: a} }

// ---- bank ledger (contract of the 2-method BankKeeper interface) ----

type escXfer struct {
	toModule bool
	addr     string
	amt      sdk.Int
}

type escBank struct {
	module sdk.Int
	other  sdk.Int // module holdings in any other denomination (every record of the universe is in escDenom)
	bal    map[string]sdk.Int
	log    []escXfer
	short  bool // a module->account transfer exceeded the module balance
}

func (b *escBank) total(amt sdk.Coins) (sdk.Int, sdk.Int) {
	t, o := sdk.ZeroInt(), sdk.ZeroInt()
	for _, c := range amt {
		if c.Denom != escDenom {
			o = o.Add(c.Amount)
			continue
		}
		t = t.Add(c.Amount)
	}
	return t, o
}

func (b *escBank) SendCoinsFromAccountToModule(ctx sdk.Context, sender sdk.AccAddress, module string, amt sdk.Coins) error {
	a, o := b.total(amt) // senders are assumed to hold enough of any other denomination
	key := sender.String()
	cur, ok := b.bal[key]
	if !ok {
		cur = sdk.ZeroInt()
	}
	if cur.LT(a) {
		return types.ErrInvalidPayment // any error: insufficient funds
	}
	if module != types.ModuleName {
		panic("transfer to a module other than escrow")
	}
	b.bal[key] = cur.Sub(a)
	b.module = b.module.Add(a)
	b.other = b.other.Add(o)
	b.log = append(b.log, escXfer{true, key, a})
	return nil
}

func (b *escBank) SendCoinsFromModuleToAccount(ctx sdk.Context, module string, rcpt sdk.AccAddress, amt sdk.Coins) error {
	a, o := b.total(amt)
	if module != types.ModuleName {
		panic("transfer from a module other than escrow")
	}
	if b.module.LT(a) || b.other.LT(o) {
		b.short = true
		return types.ErrInvalidPayment
	}
	key := rcpt.String()
	cur, ok := b.bal[key]
	if !ok {
		cur = sdk.ZeroInt()
	}
	b.bal[key] = cur.Add(a)
	b.module = b.module.Sub(a)
	b.other = b.other.Sub(o)
	b.log = append(b.log, escXfer{false, key, a})
	return nil
}

// ---- universe ----

// addresses: 0 tenant, 1 provider-1, 2 provider-2, 3 other tenant, 4 other provider
var (
	escA = types.AccountID{Scope: "deployment", XID: "t/1"}
	escB = types.AccountID{Scope: "deployment", XID: "t/12"} // decimal-prefix collision with A on purpose
	escC = types.AccountID{Scope: "bid", XID: "t/1"}         // same xid, other scope
)

type escEnv struct {
	ctx    sdk.Context
	k      keeper.Keeper
	bank   *escBank
	R      sdk.Int
	H      int64
	accHook []types.Account
	payHook []types.Payment
}

type escState struct {
	accs map[types.AccountID]types.Account
	pays map[string]types.Payment
}

func escPayKey(id types.AccountID, pid string) string { return id.Scope + "|" + id.XID + "|" + pid }

func escSnapshot(e *escEnv) escState {
	s := escState{accs: map[types.AccountID]types.Account{}, pays: map[string]types.Payment{}}
	e.k.WithAccounts(e.ctx, func(a types.Account) bool { s.accs[a.ID] = a; return false })
	e.k.WithPayments(e.ctx, func(p types.Payment) bool { s.pays[escPayKey(p.AccountID, p.PaymentID)] = p; return false })
	return s
}

func escAmount(label string) sdk.Int {
	v := verif_Int(label)
	verif_Assume(verif_And(v.GTE(sdk.ZeroInt()), v.LT(escMax)))
	return v
}

var escMax = sdk.NewIntFromUint64(1 << 50).Mul(sdk.NewIntFromUint64(1 << 50))

func escNewEnv() *escEnv {
	skey := sdk.NewKVStoreKey(types.StoreKey)
	H := verif_I64("H")
	verif_Assume(verif_And(H >= 1, H < 1<<40))
	e := &escEnv{ctx: verif_NewContext(H, skey), H: H}
	e.bank = &escBank{module: sdk.ZeroInt(), other: sdk.ZeroInt(), bal: map[string]sdk.Int{}}
	for i := 0; i < 5; i++ {
		e.bank.bal[verif_Addr(i)] = escAmount("wallet")
	}
	e.k = keeper.NewKeeper(verif_Codec(), skey, e.bank)
	e.k.AddOnAccountClosedHook(func(_ sdk.Context, a types.Account) { e.accHook = append(e.accHook, a) })
	e.k.AddOnPaymentClosedHook(func(_ sdk.Context, p types.Payment) { e.payHook = append(e.payHook, p) })
	return e
}

// seedAccount writes an account in the chosen state (1 open, 2 closed, 3 overdrawn) with symbolic numbers.
func escSeedAccount(e *escEnv, id types.AccountID, owner int, st types.Account_State) types.Account {
	bal := escAmount("acc-balance")
	if st != types.AccountOpen {
		verif_Assume(bal.IsZero()) // INV C03: closed/overdrawn => zero balance
	}
	settled := verif_I64("settledAt")
	verif_Assume(verif_And(settled >= 0, settled <= e.H)) // INV W
	a := types.Account{ID: id, Owner: verif_Addr(owner), State: st, Balance: escCoin(bal),
		Transferred: escCoin(escAmount("acc-transferred")), SettledAt: settled}
	e.k.SaveAccount(e.ctx, a)
	e.bank.module = e.bank.module.Add(bal)
	return a
}

func escSeedPayment(e *escEnv, id types.AccountID, pid string, owner int, st types.Payment_State) types.Payment {
	bal := escAmount("pay-balance")
	if st != types.PaymentOpen {
		verif_Assume(bal.IsZero())
	}
	rate := escAmount("pay-rate")
	verif_Assume(rate.IsPositive())
	p := types.Payment{AccountID: id, PaymentID: pid, Owner: verif_Addr(owner), State: st, Rate: escCoin(rate),
		Balance: escCoin(bal), Withdrawn: escCoin(escAmount("pay-withdrawn"))}
	e.k.SavePayment(e.ctx, p)
	e.bank.module = e.bank.module.Add(bal)
	return p
}

// seed builds an arbitrary INV-state: focus account A (absent/open/closed/overdrawn) with up to
// npay payments, and a bystander account B with one open payment.
func escSeed(e *escEnv, npay int) {
	ast := types.Account_State(verif_Choice("A-state", 4)) // 0 = absent
	if ast != types.AccountStateInvalid {
		escSeedAccount(e, escA, 0, ast)
		for i := 0; i < npay; i++ {
			pst := types.Payment_State(verif_Choice("p-state", 4))
			if pst == types.PaymentStateInvalid {
				continue
			}
			// INV C03: payment open => account open; payment overdrawn => account overdrawn;
			// a closed account has no open or overdrawn payment
			verif_Assume(verif_Implies(pst == types.PaymentOpen, ast == types.AccountOpen))
			verif_Assume(verif_Iff(pst == types.PaymentOverdrawn, ast == types.AccountOverdrawn) || pst == types.PaymentClosed)
			verif_Assume(verif_Implies(ast == types.AccountOverdrawn, pst != types.PaymentOpen))
			escSeedPayment(e, escA, []string{"p1", "p2", "p3"}[i], 1+i%2, pst)
		}
	}
	escSeedAccount(e, escB, 3, types.AccountOpen)
	escSeedPayment(e, escB, "p1", 4, types.PaymentOpen)
	e.R = escAmount("R")
	e.bank.module = e.bank.module.Add(e.R)
}

func escSum(s escState) sdk.Int {
	t := sdk.ZeroInt()
	for _, id := range []types.AccountID{escA, escB, escC} {
		if a, ok := s.accs[id]; ok {
			t = t.Add(a.Balance.Amount)
		}
		for _, pid := range []string{"p1", "p2", "p3"} {
			if p, ok := s.pays[escPayKey(id, pid)]; ok {
				t = t.Add(p.Balance.Amount)
			}
		}
	}
	return t
}

func escSameAccount(a, b types.Account) bool {
	return verif_And(a.State == b.State, a.Owner == b.Owner, a.Balance.Amount.Equal(b.Balance.Amount),
		a.Transferred.Amount.Equal(b.Transferred.Amount), a.SettledAt == b.SettledAt)
}

func escSamePayment(a, b types.Payment) bool {
	return verif_And(a.State == b.State, a.Owner == b.Owner, a.Balance.Amount.Equal(b.Balance.Amount),
		a.Withdrawn.Amount.Equal(b.Withdrawn.Amount), a.Rate.Amount.Equal(b.Rate.Amount))
}

// ---- post-conditions shared by every operation ----

func escCheck(e *escEnv, pre, post escState, preModule sdk.Int, focus types.AccountID) {
	// C01: module balance = sum of recorded balances (+ R for everything outside the universe)
	verif_Assert(!e.bank.short, "C01 escrow module always holds enough to pay out")
	verif_Assert(e.bank.module.Equal(escSum(post).Add(e.R)), "C01 module balance equals the sum of recorded balances")
	verif_Assert(e.bank.other.IsZero(), "C01 module balance equals the sum of recorded balances") // per denomination: no record is in another one
	// C03 record clauses
	for id, a := range post.accs {
		if a.State != types.AccountOpen {
			verif_Assert(a.Balance.Amount.IsZero(), "C03 closed or overdrawn account has zero balance")
		}
		verif_Assert(a.Balance.Amount.GTE(sdk.ZeroInt()), "C02 account balance never negative")
		for _, pid := range []string{"p1", "p2", "p3"} {
			p, ok := post.pays[escPayKey(id, pid)]
			if !ok {
				continue
			}
			verif_Assert(verif_Implies(p.State == types.PaymentOpen, a.State == types.AccountOpen), "C03 payment open only while its account is open")
			verif_Assert(verif_Implies(p.State == types.PaymentOverdrawn, a.State == types.AccountOverdrawn), "C03 overdrawn payment only under an overdrawn account")
			if p.State != types.PaymentOpen {
				verif_Assert(p.Balance.Amount.IsZero(), "C03 closed or overdrawn payment has zero balance")
			}
		}
	}
	// C03: closed/overdrawn records never change again, nothing is removed
	for id, a := range pre.accs {
		b, ok := post.accs[id]
		verif_Assert(ok, "C03 escrow account is never removed")
		if ok && a.State != types.AccountOpen {
			verif_Assert(escSameAccount(a, b), "C03 closed or overdrawn account never changes again")
		}
		if ok && id != focus {
			verif_Assert(escSameAccount(a, b), "C06 escrow operation leaves other accounts untouched")
		}
	}
	for key, p := range pre.pays {
		q, ok := post.pays[key]
		verif_Assert(ok, "C03 escrow payment is never removed")
		if ok && p.State != types.PaymentOpen {
			verif_Assert(escSamePayment(p, q), "C03 closed or overdrawn payment never changes again")
		}
		if ok && p.AccountID != focus {
			verif_Assert(escSamePayment(p, q), "C06 escrow operation leaves payments of other accounts untouched")
		}
	}
	// C01 transfers: every credit goes to the owner of a record of the focus account, for the amount that record released
	for _, x := range e.bank.log {
		if x.toModule {
			continue
		}
		verif_Assert(x.addr != verif_Addr(3) && x.addr != verif_Addr(4), "C01 payouts go only to parties of the account operated on")
	}
	// C02: a payee is credited only through its own account, never more than rate x elapsed blocks
	for key, p0 := range pre.pays {
		p1, ok := post.pays[key]
		if !ok {
			continue
		}
		got := p1.Balance.Amount.Add(p1.Withdrawn.Amount).Sub(p0.Balance.Amount.Add(p0.Withdrawn.Amount))
		if p0.AccountID != focus {
			verif_Assert(got.IsZero(), "C02 a payee is credited only by settlements of its own account")
			continue
		}
		if a0, ok := pre.accs[focus]; ok {
			elapsed := sdk.NewInt(e.H - a0.SettledAt)
			verif_Assert(verif_And(got.GTE(sdk.ZeroInt()), got.LTE(p0.Rate.Amount.Mul(elapsed))), "C02 a payee never receives more than price x blocks elapsed")
			if p0.State != types.PaymentOpen {
				verif_Assert(got.IsZero(), "C02 a closed or overdrawn payment never accrues")
			}
		}
	}
	// the chain's own genesis validation accepts the exported state
	gen := ExportGenesis(e.ctx, e.k)
	verif_Assert(ValidateGenesis(gen) == nil, "C03 exported escrow state passes genesis validation")
	// hooks fire exactly for records that left the open state in this step
	for id, a := range pre.accs {
		if b, ok := post.accs[id]; ok && a.State == types.AccountOpen && b.State != types.AccountOpen {
			n := 0
			for _, h := range e.accHook {
				if h.ID == id {
					n++
				}
			}
			verif_Assert(n == 1, "C05 account-closed hook fires once for an account that left the open state")
		}
	}
	for key, p := range pre.pays {
		if q, ok := post.pays[key]; ok && p.State == types.PaymentOpen && q.State != types.PaymentOpen {
			n := 0
			for _, h := range e.payHook {
				if escPayKey(h.AccountID, h.PaymentID) == key {
					n++
				}
			}
			verif_Assert(n == 1, "C05 payment-closed hook fires once for a payment that left the open state")
		}
	}
}

// ---- operations ----

func escRun(npay int, op int) {
	e := escNewEnv()
	escSeed(e, npay)
	pre := escSnapshot(e)
	preModule := e.bank.module
	focus := escA
	var err error
	switch op {
	case 0: // AccountCreate
		id := []types.AccountID{escA, escC}[verif_Choice("create-id", 2)]
		focus = id
		owner := verif_Choice("create-owner", 2)
		dep := escAmount("deposit")
		addr, _ := sdk.AccAddressFromBech32(verif_Addr(owner))
		err = e.k.AccountCreate(e.ctx, id, addr, escCoin(dep))
		post := escSnapshot(e)
		if err == nil {
			verif_Reach("created")
			_, existed := pre.accs[id]
			verif_Assert(!existed, "C03 account create never overwrites an existing account")
			a := post.accs[id]
			verif_Assert(verif_And(a.State == types.AccountOpen, a.Balance.Amount.Equal(dep), a.Owner == verif_Addr(owner), a.SettledAt == e.H), "C01 created account records exactly the deposit")
			verif_Assert(e.bank.module.Equal(preModule.Add(dep)), "C01 deposit enters escrow exactly")
			for _, x := range e.bank.log {
				verif_Assert(verif_And(x.toModule, x.addr == verif_Addr(owner), x.amt.Equal(dep)), "C01 create debits exactly the deposit from the depositor")
			}
		} else {
			verif_Assert(e.bank.module.Equal(preModule), "C01 failed create moves no coins")
		}
		escCheck(e, pre, post, preModule, focus)
		return
	case 1: // AccountDeposit
		dep := escAmount("deposit")
		coin := escCoin(dep)
		if verif_Choice("deposit-denom", 2) == 1 {
			coin.Denom = "ujunk" // not the account's denomination
		}
		panicked := false
		func() {
			defer func() {
				if recover() != nil {
					panicked = true
				}
			}()
			err = e.k.AccountDeposit(e.ctx, escA, coin)
		}()
		if panicked {
			verif_Reach("deposit-panicked") // the transaction is rolled back as a whole by the application
			return
		}
		post := escSnapshot(e)
		if err == nil {
			verif_Reach("deposited")
			a0, a1 := pre.accs[escA], post.accs[escA]
			verif_Assert(a1.Balance.Amount.Equal(a0.Balance.Amount.Add(dep)), "C01 deposit credited exactly to the account")
			verif_Assert(e.bank.module.Equal(preModule.Add(dep)), "C01 deposit enters escrow exactly")
			for _, x := range e.bank.log {
				verif_Assert(verif_And(x.toModule, x.addr == a0.Owner, x.amt.Equal(dep)), "C01 deposit debits exactly the amount from the account owner")
			}
		} else {
			verif_Assert(e.bank.module.Equal(preModule), "C01 failed deposit moves no coins")
		}
		// a deposit may or may not bring the account up to date first; either way what the account
		// has transferred equals what its payees were credited
		if a0, ok := pre.accs[escA]; ok {
			a1 := post.accs[escA]
			moved := a1.Transferred.Amount.Sub(a0.Transferred.Amount)
			credited := sdk.ZeroInt()
			for _, pid := range []string{"p1", "p2", "p3"} {
				key := escPayKey(escA, pid)
				if p0, ok := pre.pays[key]; ok {
					p1 := post.pays[key]
					credited = credited.Add(p1.Balance.Amount.Add(p1.Withdrawn.Amount)).Sub(p0.Balance.Amount.Add(p0.Withdrawn.Amount))
				}
			}
			verif_Assert(moved.Equal(credited), "C02 amount transferred by the account equals the total credited to its payees")
		}
		escCheck(e, pre, post, preModule, focus)
		return
	case 2:
		_, err = e.k.AccountSettle(e.ctx, escA)
	case 3:
		err = e.k.AccountClose(e.ctx, escA)
		if err == nil {
			verif_Reach("account-close-ok")
			post := escSnapshot(e)
			verif_Assert(post.accs[escA].State != types.AccountOpen, "C03 successful account close takes effect")
			for _, pid := range []string{"p1", "p2", "p3"} {
				if p, ok := post.pays[escPayKey(escA, pid)]; ok {
					verif_Assert(p.State != types.PaymentOpen, "C03 account close leaves no payment open")
				}
			}
			if a0 := pre.accs[escA]; a0.SettledAt == e.H {
				verif_Reach("account-close-same-block")
			}
		}
	case 4: // PaymentCreate
		pid := []string{"p1", "p2", "p3"}[verif_Choice("new-pid", npay+1)]
		rate := escAmount("new-rate")
		owner, _ := sdk.AccAddressFromBech32(verif_Addr(1))
		err = e.k.PaymentCreate(e.ctx, escA, pid, owner, escCoin(rate))
		if err == nil {
			verif_Reach("payment-created")
			post := escSnapshot(e)
			_, existed := pre.pays[escPayKey(escA, pid)]
			verif_Assert(!existed, "C03 payment create never overwrites an existing payment")
			p := post.pays[escPayKey(escA, pid)]
			verif_Assert(verif_And(p.State == types.PaymentOpen, p.Balance.Amount.IsZero(), p.Withdrawn.Amount.IsZero(), p.Rate.Amount.Equal(rate), rate.IsPositive()), "C02 new payment starts empty with the agreed positive rate")
			verif_Assert(post.accs[escA].State == types.AccountOpen, "C03 payment is created only under an open account")
		}
	case 5: // PaymentWithdraw
		pid := []string{"p1", "p2", "p3"}[verif_Choice("pid", npay)]
		err = e.k.PaymentWithdraw(e.ctx, escA, pid)
		if err == nil {
			verif_Reach("withdraw-ok")
		}
	case 6: // PaymentClose
		pid := []string{"p1", "p2", "p3"}[verif_Choice("pid", npay)]
		err = e.k.PaymentClose(e.ctx, escA, pid)
		if err == nil {
			verif_Reach("payment-close-ok")
			post := escSnapshot(e)
			verif_Assert(post.pays[escPayKey(escA, pid)].State != types.PaymentOpen, "C03 successful payment close takes effect")
			if a0 := pre.accs[escA]; a0.SettledAt == e.H {
				verif_Reach("payment-close-same-block")
			}
		}
	}
	post := escSnapshot(e)
	// settle-type operations: money only moves from the account to its payees and out to owners
	if a0, ok := pre.accs[escA]; ok {
		a1 := post.accs[escA]
		moved := a1.Transferred.Amount.Sub(a0.Transferred.Amount)
		credited := sdk.ZeroInt()
		for _, pid := range []string{"p1", "p2", "p3"} {
			key := escPayKey(escA, pid)
			if p0, ok := pre.pays[key]; ok {
				p1 := post.pays[key]
				credited = credited.Add(p1.Balance.Amount.Add(p1.Withdrawn.Amount)).Sub(p0.Balance.Amount.Add(p0.Withdrawn.Amount))
				verif_Assert(p1.Withdrawn.Amount.GTE(p0.Withdrawn.Amount), "C02 withdrawn total never decreases")
			}
		}
		verif_Assert(moved.Equal(credited), "C02 amount transferred by the account equals the total credited to its payees")
		verif_Assert(moved.GTE(sdk.ZeroInt()), "C02 transferred total never decreases")
		// what an account transfers comes out of its balance, so (by induction over the history) it never
		// transfers more than was deposited into it
		verif_Assert(moved.LTE(a0.Balance.Amount), "C02 an account never transfers more than was deposited into it")
		verif_Assert(a1.Balance.Amount.LTE(a0.Balance.Amount.Sub(moved)), "C02 an account never transfers more than was deposited into it")
	}
	_ = err
	escCheck(e, pre, post, preModule, focus)
}

func Harness_ESC_create_1()   { escRun(1, 0) }
func Harness_ESC_deposit_1()  { escRun(1, 1) }
func Harness_ESC_settle_1()   { escRun(1, 2) }
func Harness_ESC_close_1()    { escRun(1, 3) }
func Harness_ESC_paycreate_1() { escRun(1, 4) }
func Harness_ESC_withdraw_1() { escRun(1, 5) }
func Harness_ESC_payclose_1() { escRun(1, 6) }

func Harness_ESC_create_2()   { escRun(2, 0) }
func Harness_ESC_deposit_2()  { escRun(2, 1) }
func Harness_ESC_settle_2()   { escRun(2, 2) }
func Harness_ESC_close_2()    { escRun(2, 3) }
func Harness_ESC_paycreate_2() { escRun(2, 4) }
func Harness_ESC_withdraw_2() { escRun(2, 5) }
func Harness_ESC_payclose_2() { escRun(2, 6) }
