package zzchain

// C08 (handler level): bid admission and the provider attribute guard, on the same wiring as
// the chain step.

import (
	sdk "github.com/cosmos/cosmos-sdk/types"

	akashtypes "github.com/ovrclk/akash/types"
	atypes "github.com/ovrclk/akash/x/audit/types"
	dtypes "github.com/ovrclk/akash/x/deployment/types"
	etypes "github.com/ovrclk/akash/x/escrow/types"
	mtypes "github.com/ovrclk/akash/x/market/types"
	phandler "github.com/ovrclk/akash/x/provider/handler"
	ptypes "github.com/ovrclk/akash/x/provider/types"
)

var c08keys = []string{"region", "tier"}

func c08attr(label string) akashtypes.Attribute {
	return akashtypes.Attribute{Key: c08keys[verif_Choice(label+"-key", 2)], Value: verif_Str(label+"-value", 1)}
}

func c08covers(req, have akashtypes.Attributes) bool {
	ok := true
	for _, r := range req {
		found := false
		for _, h := range have {
			found = verif_Or(found, verif_And(r.Key == h.Key, r.Value == h.Value))
		}
		ok = verif_And(ok, found)
	}
	return ok
}

var c08denoms = []string{"uakt", "uusd"}

// seedOrder: active deployment dseq with an open group whose order carries the given requirements.
func (e *env) c08seedOrder(dseq uint64, req akashtypes.PlacementRequirements, ostate mtypes.Order_State) (dtypes.GroupSpec, sdk.Int) {
	price := amount("max-price")
	verif_Assume(price.IsPositive())
	sp := spec(price)
	sp.Requirements = req
	d := dtypes.Deployment{DeploymentID: did(dseq), State: dtypes.DeploymentActive, Version: make([]byte, 32), CreatedAt: 1}
	g := dtypes.Group{GroupID: gid(dseq), State: dtypes.GroupOpen, GroupSpec: sp, CreatedAt: 1}
	if err := e.dk.Create(e.ctx, d, []dtypes.Group{g}); err != nil {
		panic(err)
	}
	e.saveAccount(dtypes.EscrowAccountForDeployment(did(dseq)), 0, etypes.AccountOpen)
	chainPutOrder(e, mtypes.Order{OrderID: oid(dseq, 1), State: ostate, Spec: sp, CreatedAt: 1})
	return sp, price
}

func c08bid(withAuditors bool) {
	e := newEnv(1, 1)
	req := akashtypes.PlacementRequirements{Attributes: akashtypes.Attributes{c08attr("req")}}
	attested := map[string]akashtypes.Attributes{}
	if withAuditors {
		auds := []string{addr(3), addr(4)}
		for i := 0; i < verif_Choice("n-all-of", 2); i++ {
			req.SignedBy.AllOf = append(req.SignedBy.AllOf, auds[verif_Choice("all-of", 2)])
		}
		for i := 0; i < verif_Choice("n-any-of", 2); i++ {
			req.SignedBy.AnyOf = append(req.SignedBy.AnyOf, auds[verif_Choice("any-of", 2)])
		}
		for i := 3; i <= 4; i++ {
			if verif_Choice("attested", 2) == 1 {
				a := akashtypes.Attributes{c08attr("att")}
				attested[addr(i)] = a
				if err := e.ak.CreateOrUpdateProviderAttributes(e.ctx, atypes.ProviderID{Owner: acc(1), Auditor: acc(i)}, a); err != nil {
					panic(err)
				}
			}
		}
	}
	ostate := mtypes.Order_State(verif_I32("order-state"))
	verif_Assume(verif_And(int32(ostate) >= 1, int32(ostate) <= 3))
	_, maxPrice := e.c08seedOrder(1, req, ostate)
	registered := withAuditors || verif_Choice("provider-registered", 2) == 1
	var own akashtypes.Attributes
	if registered {
		nown := 2
		if !withAuditors {
			nown = verif_Choice("n-own", 3)
		}
		for i := 0; i < nown; i++ {
			own = append(own, c08attr("own"))
		}
	}
	bidder, orderNo, pd, dd := 1, 1, denom, denom
	spelling := addr(1)
	if !withAuditors { // the non-attribute admission rules are explored in the self-declared variant
		bidder = []int{1, 0}[verif_Choice("bidder-is-tenant", 2)]
		orderNo = 1 + verif_Choice("order-exists", 2)
		pd, dd = c08denoms[verif_Choice("price-denom", 2)], c08denoms[verif_Choice("deposit-denom", 2)]
		spelling = addr(bidder)
		if verif_Choice("provider-spelled-in-uppercase", 2) == 1 {
			spelling = verif_AddrUpper(bidder) // bech32 text is also valid in all-uppercase; same account
		}
	}
	if registered {
		// the bidding account is a registered provider (a tenant may be one too)
		if err := e.pk.Create(e.ctx, ptypes.Provider{Owner: addr(bidder), HostURI: "h", Attributes: own}); err != nil {
			panic(err)
		}
	}
	price, deposit := amount("msg-price"), amount("msg-deposit")
	m := &mtypes.MsgCreateBid{Order: oid(1, orderNo), Provider: spelling, Price: sdk.Coin{Denom: pd, Amount: price}, Deposit: sdk.Coin{Denom: dd, Amount: deposit}}
	err := func() (err error) {
		defer func() {
			if r := recover(); r != nil {
				err = etypes.ErrInvalidPayment
			}
		}()
		if err := m.ValidateBasic(); err != nil {
			return err
		}
		_, err = e.ms.CreateBid(sdk.WrapSDKContext(e.ctx), m)
		return err
	}()
	if err != nil {
		verif_Reach("bid-rejected")
		return
	}
	verif_Reach("bid-accepted")
	reqA := req.Attributes
	var attrOK bool
	if len(req.SignedBy.AllOf) == 0 && len(req.SignedBy.AnyOf) == 0 {
		attrOK = c08covers(reqA, own)
	} else {
		attrOK = true
		for _, a := range req.SignedBy.AllOf {
			at, ok := attested[a]
			attrOK = verif_And(attrOK, ok && c08covers(reqA, at))
		}
		if len(req.SignedBy.AnyOf) > 0 {
			some := false
			for _, a := range req.SignedBy.AnyOf {
				at, ok := attested[a]
				some = verif_Or(some, ok && c08covers(reqA, at))
			}
			attrOK = verif_And(attrOK, some)
		}
	}
	verif_Assert(orderNo == 1, "C08 bid accepted only for an existing order")
	verif_Assert(ostate == mtypes.OrderOpen, "C08 bid accepted only for an open order")
	verif_Assert(registered, "C08 bid accepted only from a registered provider")
	verif_Assert(bidder != 0, "C08 bid accepted only from a provider other than the tenant")
	verif_Assert(verif_And(pd == denom, price.IsPositive(), price.LTE(maxPrice)), "C08 bid accepted only at a valid non-zero price not above the order's maximum")
	verif_Assert(verif_And(dd == denom, deposit.GTE(e.minBid)), "C08 bid accepted only with at least the minimum deposit")
	verif_Assert(attrOK, "C08 bid accepted only if the provider's attributes cover the order's requirements")
}

func Harness_C08_bid_self()     { c08bid(false) }
func Harness_C08_bid_auditors() { c08bid(true) }

// provider attribute guard: an update is accepted only if the new attributes still cover the
// requirements of every active lease of that provider.
func Harness_C08_update_provider() {
	e := newEnv(1, 1)
	ps := phandler.NewMsgServerImpl(e.pk, e.mk)
	if err := e.pk.Create(e.ctx, ptypes.Provider{Owner: addr(1), HostURI: "https://h", Attributes: akashtypes.Attributes{c08attr("old")}}); err != nil {
		panic(err)
	}
	var reqs []akashtypes.Attributes
	var active []bool
	for _, dseq := range []uint64{1, 12} {
		req := akashtypes.PlacementRequirements{Attributes: akashtypes.Attributes{c08attr("req")}}
		e.c08seedOrder(dseq, req, mtypes.OrderActive)
		lst := mtypes.Lease_State(verif_I32("lease-state"))
		verif_Assume(verif_And(int32(lst) >= 1, int32(lst) <= 3))
		prov := 1
		if verif_Choice("lease-of-other-provider", 2) == 1 {
			prov = 2
		}
		chainPutLease(e, mtypes.Lease{LeaseID: lid(dseq, 1, prov), State: lst, Price: coin(sdk.OneInt()), CreatedAt: 1})
		reqs = append(reqs, req.Attributes)
		active = append(active, verif_And(lst == mtypes.LeaseActive, prov == 1))
	}
	var attrs akashtypes.Attributes
	n := verif_Choice("n-new", 3)
	for i := 0; i < n; i++ {
		attrs = append(attrs, c08attr("new"))
	}
	m := &ptypes.MsgUpdateProvider{Owner: addr(1), HostURI: "https://h", Attributes: attrs}
	_, err := func() (r *ptypes.MsgUpdateProviderResponse, err error) {
		defer func() {
			if x := recover(); x != nil {
				err = etypes.ErrInvalidPayment
			}
		}()
		return ps.UpdateProvider(sdk.WrapSDKContext(e.ctx), m)
	}()
	if err != nil {
		verif_Reach("update-rejected")
		return
	}
	verif_Reach("update-accepted")
	for i := range reqs {
		verif_Assert(verif_Implies(active[i], c08covers(reqs[i], attrs)), "C08 a provider cannot change its attributes so that they no longer cover an active lease's requirements")
	}
	p, ok := e.pk.Get(e.ctx, acc(1))
	verif_Assert(ok && len(p.Attributes) == len(attrs), "C08 accepted update stores the new attributes")
}
