package zzchain

//verif:pkg zzverif/chain   (virtual package, exists only in the overlay)

// Handler-level inductive step (DESIGN §4): the real deployment and market message
// servers, keepers and escrow hooks, wired exactly as app.setAkashKeepers wires them,
// executed for ONE message from an arbitrary pre-state satisfying INV.  Record presence
// is chosen per slot, record states and all numbers are symbolic.

import (
	"github.com/cosmos/cosmos-sdk/codec"
	sdk "github.com/cosmos/cosmos-sdk/types"
	paramtypes "github.com/cosmos/cosmos-sdk/x/params/types"

	akeeper "github.com/ovrclk/akash/x/audit/keeper"
	atypes "github.com/ovrclk/akash/x/audit/types"
	dhandler "github.com/ovrclk/akash/x/deployment/handler"
	dkeeper "github.com/ovrclk/akash/x/deployment/keeper"
	dtypes "github.com/ovrclk/akash/x/deployment/types"
	ekeeper "github.com/ovrclk/akash/x/escrow/keeper"
	etypes "github.com/ovrclk/akash/x/escrow/types"
	mhandler "github.com/ovrclk/akash/x/market/handler"
	mhooks "github.com/ovrclk/akash/x/market/hooks"
	mkeeper "github.com/ovrclk/akash/x/market/keeper"
	mtypes "github.com/ovrclk/akash/x/market/types"
	pkeeper "github.com/ovrclk/akash/x/provider/keeper"
	ptypes "github.com/ovrclk/akash/x/provider/types"

	akashtypes "github.com/ovrclk/akash/types"
)

const denom = "uakt"

func coin(a sdk.Int) sdk.Coin { return sdk.Coin{Denom: denom, Amount: a} }

var amountMax = sdk.NewIntFromUint64(1 << 50).Mul(sdk.NewIntFromUint64(1 << 50))

func amount(label string) sdk.Int {
	v := verif_Int(label)
	verif_Assume(verif_And(v.GTE(sdk.ZeroInt()), v.LT(amountMax)))
	return v
}

// ---------- bank ledger ----------

type xfer struct {
	toModule bool
	addr     string
	amt      sdk.Int
}

type bank struct {
	module sdk.Int
	bal    map[string]sdk.Int
	log    []xfer
	short  bool
}

func (b *bank) total(amt sdk.Coins) sdk.Int {
	t := sdk.ZeroInt()
	for _, c := range amt {
		if c.Denom != denom {
			panic("unexpected denom in bank transfer")
		}
		t = t.Add(c.Amount)
	}
	return t
}

func (b *bank) SendCoinsFromAccountToModule(ctx sdk.Context, sender sdk.AccAddress, module string, amt sdk.Coins) error {
	a := b.total(amt)
	key := sender.String()
	cur, ok := b.bal[key]
	if !ok {
		cur = sdk.ZeroInt()
	}
	if cur.LT(a) {
		return etypes.ErrInvalidPayment
	}
	if module != etypes.ModuleName {
		panic("transfer to a module other than escrow")
	}
	b.bal[key] = cur.Sub(a)
	b.module = b.module.Add(a)
	b.log = append(b.log, xfer{true, key, a})
	return nil
}

func (b *bank) SendCoinsFromModuleToAccount(ctx sdk.Context, module string, rcpt sdk.AccAddress, amt sdk.Coins) error {
	a := b.total(amt)
	if module != etypes.ModuleName {
		panic("transfer from a module other than escrow")
	}
	if b.module.LT(a) {
		b.short = true
		return etypes.ErrInvalidPayment
	}
	key := rcpt.String()
	cur, ok := b.bal[key]
	if !ok {
		cur = sdk.ZeroInt()
	}
	b.bal[key] = cur.Add(a)
	b.module = b.module.Sub(a)
	b.log = append(b.log, xfer{false, key, a})
	return nil
}

func (b *bank) clone() *bank {
	n := &bank{module: b.module, bal: map[string]sdk.Int{}, short: b.short}
	for k, v := range b.bal {
		n.bal[k] = v
	}
	n.log = append([]xfer{}, b.log...)
	return n
}

func (b *bank) restore(o *bank) {
	b.module, b.short = o.module, o.short
	b.bal = map[string]sdk.Int{}
	for k, v := range o.bal {
		b.bal[k] = v
	}
	b.log = append([]xfer{}, o.log...)
}

// ---------- environment ----------

type env struct {
	ctx   sdk.Context
	H     int64
	bank  *bank
	R     sdk.Int
	ek    ekeeper.Keeper
	dk    dkeeper.IKeeper
	mk    mkeeper.IKeeper
	pk    pkeeper.IKeeper
	ak    akeeper.IKeeper
	ds    dtypes.MsgServer
	ms    mtypes.MsgServer
	NO    int // order slots of group 1 (further groups have one)
	NP    int // providers
	cdc   codec.BinaryMarshaler
	keys  map[string]*sdk.KVStoreKey
	tkey  *sdk.TransientStoreKey
	dsub, msub paramtypes.Subspace
	ngroups map[uint64]int
	msgGroup int // the group named by the message of this step (0: none)
	minBid, minDep sdk.Int
}

// addresses: 0 tenant, 1..2 providers, 3 bystander tenant, 4 bystander provider
func addr(i int) string { return verif_Addr(i) }
func acc(i int) sdk.AccAddress {
	a, err := sdk.AccAddressFromBech32(verif_Addr(i))
	if err != nil {
		panic(err)
	}
	return a
}

func newEnv(no, np int) *env {
	e := &env{NO: no, NP: np, ngroups: map[uint64]int{1: nGroups}}
	keys := map[string]*sdk.KVStoreKey{}
	var all []sdk.StoreKey
	for _, n := range []string{etypes.StoreKey, dtypes.StoreKey, mtypes.StoreKey, ptypes.StoreKey, atypes.StoreKey, "params"} {
		keys[n] = sdk.NewKVStoreKey(n)
		all = append(all, keys[n])
	}
	tkey := sdk.NewTransientStoreKey("transient_params")
	all = append(all, tkey)
	e.H = verif_I64("H")
	verif_Assume(verif_And(e.H >= 1, e.H < 1<<40))
	e.ctx = verif_NewContext(e.H, all...)
	cdc := verif_Codec()
	e.bank = &bank{module: sdk.ZeroInt(), bal: map[string]sdk.Int{}}
	for i := 0; i < 5; i++ {
		e.bank.bal[addr(i)] = amount("wallet")
	}
	e.cdc, e.keys, e.tkey = cdc, keys, tkey
	e.dsub = verif_Subspace(cdc, dtypes.ModuleName, keys["params"], tkey)
	e.msub = verif_Subspace(cdc, mtypes.ModuleName, keys["params"], tkey)
	e.wire()
	e.minBid = amount("bid-min-deposit")
	e.minDep = amount("deployment-min-deposit")
	e.mk.SetParams(e.ctx, mtypes.Params{BidMinDeposit: coin(e.minBid), OrderMaxBids: 20})
	e.dk.SetParams(e.ctx, dtypes.Params{DeploymentMinDeposit: coin(e.minDep)})
	return e
}

// wire builds the keepers, hooks and message servers over the environment's stores, identical to
// app.setAkashKeepers.  Calling it again models a freshly started process on the same chain state.
func (e *env) wire() {
	cdc, keys := e.cdc, e.keys
	e.ek = ekeeper.NewKeeper(cdc, keys[etypes.StoreKey], e.bank)
	e.dk = dkeeper.NewKeeper(cdc, keys[dtypes.StoreKey], e.dsub, e.ek)
	e.mk = mkeeper.NewKeeper(cdc, keys[mtypes.StoreKey], e.msub, e.ek)
	hook := mhooks.New(e.dk, e.mk)
	e.ek.AddOnAccountClosedHook(hook.OnEscrowAccountClosed)
	e.ek.AddOnPaymentClosedHook(hook.OnEscrowPaymentClosed)
	e.pk = pkeeper.NewKeeper(cdc, keys[ptypes.StoreKey])
	e.ak = akeeper.NewKeeper(cdc, keys[atypes.StoreKey])
	e.ds = dhandler.NewServer(e.dk, e.mk, e.ek)
	e.ms = mhandler.NewServer(mhandler.Keepers{Escrow: e.ek, Market: e.mk, Deployment: e.dk, Provider: e.pk, Audit: e.ak})
}

// ---------- identifiers ----------

// The harness talks about deployments 1 (focus), 12 (bystander) and 3 (new); on chain they carry
// sequence numbers above 2^32 (a deployment's number is chosen by the tenant and is a uint64), with
// the bystander's decimal rendering extending the focus deployment's.
const focusDSeq = uint64(1)<<32 + 1

func realDSeq(d uint64) uint64 {
	switch d {
	case 1:
		return focusDSeq
	case 12:
		return focusDSeq*10 + 2
	}
	return focusDSeq + d
}
func logicalDSeq(r uint64) uint64 {
	for _, d := range []uint64{1, 12, 3} {
		if realDSeq(d) == r {
			return d
		}
	}
	return r
}
func did(dseq uint64) dtypes.DeploymentID {
	return dtypes.DeploymentID{Owner: addr(0), DSeq: realDSeq(dseq)}
}
func gid(dseq uint64) dtypes.GroupID      { return gidG(dseq, 1) }
func oid(dseq uint64, o int) mtypes.OrderID { return oidG(dseq, 1, o) }
func bidid(dseq uint64, o, p int) mtypes.BidID { return bididG(dseq, 1, o, p) }
func lid(dseq uint64, o, p int) mtypes.LeaseID  { return lidG(dseq, 1, o, p) }

// group-indexed identifiers (the *_g2 universe has a second group in the focus deployment)
func gidG(dseq uint64, g int) dtypes.GroupID { return dtypes.MakeGroupID(did(dseq), uint32(g)) }
func oidG(dseq uint64, g, o int) mtypes.OrderID {
	return mtypes.MakeOrderID(gidG(dseq, g), uint32(o))
}
func bididG(dseq uint64, g, o, p int) mtypes.BidID { return mtypes.MakeBidID(oidG(dseq, g, o), acc(p)) }
func lidG(dseq uint64, g, o, p int) mtypes.LeaseID  { return mtypes.MakeLeaseID(bididG(dseq, g, o, p)) }

// gk identifies a group in a snapshot
type gk struct {
	d uint64
	g int
}

// nGroups: number of groups of the focus deployment (1, or 2 in the *_g2 harnesses)
var nGroups = 1

// groupsOf: how many groups deployment dseq has (when it exists)
func (e *env) groupsOf(dseq uint64) int {
	if n, ok := e.ngroups[dseq]; ok {
		return n
	}
	return 1
}

// slots: order slots of group g when group 1 has no
func (e *env) slots(g, no int) int {
	if g == 1 {
		return no
	}
	return no - e.NO + 1
}

var groupNames = []string{"", "g", "h"}

func spec(price sdk.Int) dtypes.GroupSpec { return specN(price, 1) }

func specN(price sdk.Int, g int) dtypes.GroupSpec {
	return dtypes.GroupSpec{
		Name: groupNames[g],
		Resources: []dtypes.Resource{{
			Resources: akashtypes.ResourceUnits{
				CPU:     &akashtypes.CPU{Units: akashtypes.NewResourceValue(100)},
				Memory:  &akashtypes.Memory{Quantity: akashtypes.NewResourceValue(64 << 20)},
				Storage: &akashtypes.Storage{Quantity: akashtypes.NewResourceValue(64 << 20)},
			},
			Count: 1,
			Price: coin(price),
		}},
	}
}

// ---------- state snapshot ----------

type state struct {
	dep    map[uint64]dtypes.Deployment
	grp    map[gk]dtypes.Group
	ord    map[mtypes.OrderID]mtypes.Order
	bid    map[mtypes.BidID]mtypes.Bid
	lease  map[mtypes.LeaseID]mtypes.Lease
	acct   map[etypes.AccountID]etypes.Account
	pay    map[string]etypes.Payment
	module sdk.Int
	wallet map[string]sdk.Int
}

func payKey(id etypes.AccountID, pid string) string { return id.Scope + "|" + id.XID + "|" + pid }

func leasePayKey(l mtypes.LeaseID) string {
	return payKey(dtypes.EscrowAccountForDeployment(l.DeploymentID()), mtypes.EscrowPaymentForLease(l))
}

func (e *env) snapshot() state {
	s := state{dep: map[uint64]dtypes.Deployment{}, grp: map[gk]dtypes.Group{}, ord: map[mtypes.OrderID]mtypes.Order{},
		bid: map[mtypes.BidID]mtypes.Bid{}, lease: map[mtypes.LeaseID]mtypes.Lease{}, acct: map[etypes.AccountID]etypes.Account{},
		pay: map[string]etypes.Payment{}, wallet: map[string]sdk.Int{}}
	e.dk.WithDeployments(e.ctx, func(d dtypes.Deployment) bool {
		s.dep[logicalDSeq(d.DeploymentID.DSeq)] = d
		for _, g := range e.dk.GetGroups(e.ctx, d.DeploymentID) {
			s.grp[gk{logicalDSeq(g.GroupID.DSeq), int(g.GroupID.GSeq)}] = g
		}
		return false
	})
	e.mk.WithOrders(e.ctx, func(o mtypes.Order) bool { s.ord[o.OrderID] = o; return false })
	e.mk.WithBids(e.ctx, func(b mtypes.Bid) bool { s.bid[b.BidID] = b; return false })
	e.mk.WithLeases(e.ctx, func(l mtypes.Lease) bool { s.lease[l.LeaseID] = l; return false })
	e.ek.WithAccounts(e.ctx, func(a etypes.Account) bool { s.acct[a.ID] = a; return false })
	e.ek.WithPayments(e.ctx, func(p etypes.Payment) bool { s.pay[payKey(p.AccountID, p.PaymentID)] = p; return false })
	s.module = e.bank.module
	for k, v := range e.bank.bal {
		s.wallet[k] = v
	}
	return s
}

// ---------- seeding an arbitrary state ----------

func (e *env) height(label string) int64 {
	h := verif_I64(label)
	verif_Assume(verif_And(h >= 0, h <= e.H))
	return h
}

func (e *env) saveAccount(id etypes.AccountID, owner int, st etypes.Account_State) etypes.Account {
	bal := amount("acct-balance")
	a := etypes.Account{ID: id, Owner: addr(owner), State: st, Balance: coin(bal), Transferred: coin(amount("acct-transferred")), SettledAt: e.height("settledAt")}
	e.ek.SaveAccount(e.ctx, a)
	e.bank.module = e.bank.module.Add(bal)
	return a
}

func (e *env) savePayment(l mtypes.LeaseID, owner int, st etypes.Payment_State, rate sdk.Int) etypes.Payment {
	bal := amount("pay-balance")
	p := etypes.Payment{AccountID: dtypes.EscrowAccountForDeployment(l.DeploymentID()), PaymentID: mtypes.EscrowPaymentForLease(l),
		Owner: addr(owner), State: st, Rate: coin(rate), Balance: coin(bal), Withdrawn: coin(amount("pay-withdrawn"))}
	e.ek.SavePayment(e.ctx, p)
	e.bank.module = e.bank.module.Add(bal)
	return p
}

func (e *env) rawSet(store sdk.StoreKey, key []byte, bz []byte) { e.ctx.KVStore(store).Set(key, bz) }

// seedDeployment writes deployment dseq with one group, `no` order slots and `np` provider slots per order.
// Presence of orders/bids/leases is chosen; states and numbers are symbolic.  Returns nothing: the
// invariant is imposed afterwards on the snapshot read back through the real keepers.
func (e *env) seedDeployment(dseq uint64, no, np int, mayBeAbsent bool) {
	if mayBeAbsent && verif_Choice("deployment-present", 2) == 0 {
		return
	}
	dst := dtypes.Deployment_State(verif_I32("deployment-state"))
	d := dtypes.Deployment{DeploymentID: did(dseq), State: dst, Version: make([]byte, 32), CreatedAt: e.height("createdAt")}
	ng := e.groupsOf(dseq)
	var groups []dtypes.Group
	for g := 1; g <= ng; g++ {
		gst := dtypes.Group_State(verif_I32("group-state"))
		price := amount("max-price")
		verif_Assume(price.IsPositive())
		groups = append(groups, dtypes.Group{GroupID: gidG(dseq, g), State: gst, GroupSpec: specN(price, g), CreatedAt: d.CreatedAt})
	}
	if err := e.dk.Create(e.ctx, d, groups); err != nil {
		panic(err)
	}
	ast := etypes.Account_State(verif_I32("dacct-state"))
	e.saveAccount(dtypes.EscrowAccountForDeployment(did(dseq)), 0, ast)
	var seededLeases []mtypes.Lease
	defer func() {
		// every lease written is found again under its own id: two leases of one provider in two
		// groups of a deployment are distinct records (otherwise the pre-state would silently
		// lose a lease and the step below would be explored from fewer states than intended)
		for _, l := range seededLeases {
			got, ok := e.mk.GetLease(e.ctx, l.LeaseID)
			verif_Assert(ok && got.LeaseID.Equals(l.LeaseID) && got.State == l.State, "C05 every lease has its own record, found under its own id")
		}
	}()
	for g := 1; g <= ng; g++ {
		norders := 1 + verif_Choice("orders", e.slots(g, no))
		for o := 1; o <= norders; o++ {
			ost := mtypes.Order_State(verif_I32("order-state"))
			ord := mtypes.Order{OrderID: oidG(dseq, g, o), State: ost, Spec: groups[g-1].GroupSpec, CreatedAt: e.height("createdAt")}
			e.rawSetOrder(ord)
			for p := 1; p <= np; p++ {
				shape := verif_Choice("bid-slot", 3) // 0 none, 1 bid, 2 bid+lease
				if shape == 0 {
					continue
				}
				bst := mtypes.Bid_State(verif_I32("bid-state"))
				bprice := amount("bid-price")
				b := mtypes.Bid{BidID: bididG(dseq, g, o, p), State: bst, Price: coin(bprice), CreatedAt: e.height("createdAt")}
				e.rawSetBid(b)
				e.saveAccount(mtypes.EscrowAccountForBid(b.BidID), p, etypes.Account_State(verif_I32("bacct-state")))
				if shape == 2 {
					lst := mtypes.Lease_State(verif_I32("lease-state"))
					l := mtypes.Lease{LeaseID: lidG(dseq, g, o, p), State: lst, Price: coin(amount("lease-price")), CreatedAt: e.height("createdAt")}
					e.rawSetLease(l)
					seededLeases = append(seededLeases, l)
					e.savePayment(l.LeaseID, p, etypes.Payment_State(verif_I32("pay-state")), amount("pay-rate"))
				}
			}
		}
	}
}

// the market keeper has no "save" API for arbitrary records: go through its codec and store key
// exactly as its own updateOrder/updateBid/updateLease do (keys from the public key helpers are not
// exported, so the records are written by creating them through the keeper and then overwriting state).
func (e *env) rawSetOrder(o mtypes.Order) { chainPutOrder(e, o) }
func (e *env) rawSetBid(b mtypes.Bid)     { chainPutBid(e, b) }
func (e *env) rawSetLease(l mtypes.Lease) { chainPutLease(e, l) }
