package zzchain

import (
	"bytes"

	sdk "github.com/cosmos/cosmos-sdk/types"
	abci "github.com/tendermint/tendermint/abci/types"

	"github.com/ovrclk/akash/sdkutil"
	dtypes "github.com/ovrclk/akash/x/deployment/types"
	mtypes "github.com/ovrclk/akash/x/market/types"
)

// C16: every lifecycle change is observable as exactly one typed event identifying the
// object, every such event corresponds to a change, and every emitted event decodes
// through the provider-side parsers (sdkutil.ParseEvent + module ParseEvent) to the typed event.

type evCount struct {
	orderCreated, orderClosed   map[mtypes.OrderID]int
	bidCreated, bidClosed       map[mtypes.BidID]int
	leaseCreated, leaseClosed   map[mtypes.LeaseID]int
	depCreated, depClosed       map[uint64]int
	depUpdated                  map[uint64]int
	grpClosed, grpPaused, grpStarted map[gk]int
	prices                      map[string]sdk.Coin
	undecodable                 int
	total                       int
}

func decodeEvents(evs sdk.Events) evCount {
	c := evCount{orderCreated: map[mtypes.OrderID]int{}, orderClosed: map[mtypes.OrderID]int{}, bidCreated: map[mtypes.BidID]int{}, bidClosed: map[mtypes.BidID]int{},
		leaseCreated: map[mtypes.LeaseID]int{}, leaseClosed: map[mtypes.LeaseID]int{}, depCreated: map[uint64]int{}, depClosed: map[uint64]int{}, depUpdated: map[uint64]int{},
		grpClosed: map[gk]int{}, grpPaused: map[gk]int{}, grpStarted: map[gk]int{}, prices: map[string]sdk.Coin{}}
	for _, raw := range evs {
		c.total++
		ev, err := sdkutil.ParseEvent(sdk.StringifyEvent(abci.Event(raw)))
		if err != nil {
			c.undecodable++
			continue
		}
		var typed sdkutil.ModuleEvent
		switch ev.Module {
		case mtypes.ModuleName:
			typed, err = mtypes.ParseEvent(ev)
		case dtypes.ModuleName:
			typed, err = dtypes.ParseEvent(ev)
		default:
			continue // provider / audit events are not produced by these handlers
		}
		if err != nil {
			c.undecodable++
			continue
		}
		switch t := typed.(type) {
		case mtypes.EventOrderCreated:
			c.orderCreated[t.ID]++
		case mtypes.EventOrderClosed:
			c.orderClosed[t.ID]++
		case mtypes.EventBidCreated:
			c.bidCreated[t.ID]++
			c.prices["bid-created"] = t.Price
		case mtypes.EventBidClosed:
			c.bidClosed[t.ID]++
		case mtypes.EventLeaseCreated:
			c.leaseCreated[t.ID]++
			c.prices["lease-created"] = t.Price
		case mtypes.EventLeaseClosed:
			c.leaseClosed[t.ID]++
		case dtypes.EventDeploymentCreated:
			if t.ID.Owner == addr(0) {
				c.depCreated[logicalDSeq(t.ID.DSeq)]++
			}
		case dtypes.EventDeploymentUpdated:
			if t.ID.Owner == addr(0) {
				c.depUpdated[logicalDSeq(t.ID.DSeq)]++
			}
		case dtypes.EventDeploymentClosed:
			if t.ID.Owner == addr(0) {
				c.depClosed[logicalDSeq(t.ID.DSeq)]++
			}
		case dtypes.EventGroupClosed:
			if t.ID.Owner == addr(0) {
				c.grpClosed[gk{logicalDSeq(t.ID.DSeq), int(t.ID.GSeq)}]++
			}
		case dtypes.EventGroupPaused:
			if t.ID.Owner == addr(0) {
				c.grpPaused[gk{logicalDSeq(t.ID.DSeq), int(t.ID.GSeq)}]++
			}
		case dtypes.EventGroupStarted:
			if t.ID.Owner == addr(0) {
				c.grpStarted[gk{logicalDSeq(t.ID.DSeq), int(t.ID.GSeq)}]++
			}
		default:
			c.undecodable++
		}
	}
	return c
}

func b2i(b bool) int {
	if b {
		return 1
	}
	return 0
}

// eq asserts that the event count for an object equals 1 if the change happened and 0 otherwise.
func evExpect(got int, changed bool, label string) {
	verif_Assert(verif_Iff(changed, got == 1), label)
	verif_Assert(got <= 1, label+" (at most once)")
}

func checkEvents(pre, post state, evs sdk.Events, h int) {
	c := decodeEvents(evs)
	verif_Assert(c.undecodable == 0, "C16 every emitted marketplace event decodes through the provider's event parser")
	for id, o1 := range post.ord {
		o0, existed := pre.ord[id]
		evExpect(c.orderCreated[id], !existed, "C16 order created iff an order-created event for it is emitted")
		closedNow := verif_And(o1.State == mtypes.OrderClosed, verif_Or(!existed, o0.State != mtypes.OrderClosed))
		evExpect(c.orderClosed[id], closedNow, "C16 order closed iff an order-closed event for it is emitted")
	}
	for id, b1 := range post.bid {
		b0, existed := pre.bid[id]
		evExpect(c.bidCreated[id], !existed, "C16 bid created iff a bid-created event for it is emitted")
		closedNow := verif_And(b1.State == mtypes.BidClosed, verif_Or(!existed, b0.State != mtypes.BidClosed))
		evExpect(c.bidClosed[id], closedNow, "C16 bid closed iff a bid-closed event for it is emitted")
		if !existed {
			verif_Assert(c.prices["bid-created"].Amount.Equal(b1.Price.Amount), "C16 bid-created event carries the bid's price")
		}
	}
	for id, l1 := range post.lease {
		l0, existed := pre.lease[id]
		evExpect(c.leaseCreated[id], !existed, "C16 lease created iff a lease-created event for it is emitted")
		endedNow := verif_And(l1.State != mtypes.LeaseActive, verif_Or(!existed, l0.State == mtypes.LeaseActive))
		evExpect(c.leaseClosed[id], endedNow, "C16 lease closed iff a lease-closed event for it is emitted")
		if !existed {
			verif_Assert(c.prices["lease-created"].Amount.Equal(l1.Price.Amount), "C16 lease-created event carries the lease's price")
		}
	}
	for dseq, d1 := range post.dep {
		d0, existed := pre.dep[dseq]
		evExpect(c.depCreated[dseq], !existed, "C16 deployment created iff a deployment-created event for it is emitted")
		closedNow := verif_And(d1.State == dtypes.DeploymentClosed, verif_Or(!existed, d0.State != dtypes.DeploymentClosed))
		evExpect(c.depClosed[dseq], closedNow, "C16 deployment closed iff a deployment-closed event for it is emitted")
		if existed && !bytes.Equal(d0.Version, d1.Version) {
			verif_Assert(c.depUpdated[dseq] == 1, "C16 a version change emits exactly one deployment-updated event")
		}
	}
	for key, g1 := range post.grp {
		g0, existed := pre.grp[key]
		if existed {
			nonClosed0 := verif_And(g0.State != dtypes.GroupClosed, g0.State != dtypes.GroupInsufficientFunds)
			closedNow := verif_And(verif_Or(g1.State == dtypes.GroupClosed, g1.State == dtypes.GroupInsufficientFunds), verif_Or(nonClosed0, g0.State != g1.State))
			evExpect(c.grpClosed[key], closedNow, "C16 group closed iff a group-closed event for it is emitted")
			// a group can be paused and then closed by an escrow overdraft inside the same transaction:
			// the paused event is then legitimate although the group does not end up paused
			pausedNow := verif_And(g1.State == dtypes.GroupPaused, g0.State != dtypes.GroupPaused)
			pausedThenClosed := verif_And(g0.State == dtypes.GroupOpen, closedNow)
			verif_Assert(verif_Implies(pausedNow, c.grpPaused[key] == 1), "C16 a paused group emits exactly one group-paused event")
			verif_Assert(verif_Implies(c.grpPaused[key] >= 1, verif_And(c.grpPaused[key] == 1, verif_Or(pausedNow, pausedThenClosed))), "C16 a group-paused event is emitted only for a group that was paused")
			evExpect(c.grpStarted[key], verif_And(g1.State == dtypes.GroupOpen, g0.State != dtypes.GroupOpen), "C16 group started iff a group-started event for it is emitted")
		}
	}
	verif_Assert((c.depUpdated[1] == 1) == (h == hUpdateDeployment), "C16 deployment-updated event iff an update-deployment message succeeded")
}
