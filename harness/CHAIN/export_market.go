package keeper

// Verification-only export (overlay, never written to /repo): lets the chain harness
// seed arbitrary market records through the keeper's own update functions and keys.

import (
	sdk "github.com/cosmos/cosmos-sdk/types"
	"github.com/ovrclk/akash/x/market/types"
)

func VerifPutOrder(k IKeeper, ctx sdk.Context, o types.Order) { k.(Keeper).updateOrder(ctx, o) }
func VerifPutBid(k IKeeper, ctx sdk.Context, b types.Bid)     { k.(Keeper).updateBid(ctx, b) }
func VerifPutLease(k IKeeper, ctx sdk.Context, l types.Lease) { k.(Keeper).updateLease(ctx, l) }
