package zzchain

import (
	sdk "github.com/cosmos/cosmos-sdk/types"

	dtypes "github.com/ovrclk/akash/x/deployment/types"
	etypes "github.com/ovrclk/akash/x/escrow/types"
	mkeeper "github.com/ovrclk/akash/x/market/keeper"
	mtypes "github.com/ovrclk/akash/x/market/types"
)

func chainPutOrder(e *env, o mtypes.Order) { mkeeper.VerifPutOrder(e.mk, e.ctx, o) }
func chainPutBid(e *env, b mtypes.Bid)     { mkeeper.VerifPutBid(e.mk, e.ctx, b) }
func chainPutLease(e *env, l mtypes.Lease) { mkeeper.VerifPutLease(e.mk, e.ctx, l) }

// clause is one labelled INV clause evaluated on a snapshot (branch-free boolean).
type clause struct {
	label string
	ok    bool
}

func inRange(v, lo, hi int32) bool { return verif_And(v >= lo, v <= hi) }

// invariant evaluates INV (DESIGN §4 / Appendix A) over the universe of deployment dseq.
// The result is a list of labelled clauses; assumed of the pre-state, asserted of the post-state.
func (e *env) invariant(s state, dseq uint64, no, np int) []clause {
	var cs []clause
	add := func(label string, ok bool) { cs = append(cs, clause{label, ok}) }
	d, dok := s.dep[dseq]
	dacct, daok := s.acct[dtypes.EscrowAccountForDeployment(did(dseq))]
	ng := e.groupsOf(dseq)
	gok := true
	anyGroup := false
	for g := 1; g <= ng; g++ {
		_, ok := s.grp[gk{dseq, g}]
		gok = gok && ok
		anyGroup = anyGroup || ok
	}
	add("W deployment, its group and its escrow account exist together", verif_And(dok == gok, dok == daok, dok == anyGroup))
	if !dok || !gok || !daok {
		// nothing may exist beneath an absent deployment
		for g := 1; g <= ng; g++ {
			for o := 1; o <= e.slots(g, no)+1; o++ {
				_, ok := s.ord[oidG(dseq, g, o)]
				add("W no order without its deployment", !ok)
			}
		}
		return cs
	}
	add("W enum ranges", verif_And(inRange(int32(d.State), 1, 2), inRange(int32(dacct.State), 1, 3)))
	dActive := d.State == dtypes.DeploymentActive
	// C05 M3
	add("C05 deployment active iff its escrow account is open", verif_Iff(dActive, dacct.State == etypes.AccountOpen))
	add("C03 closed or overdrawn account has zero balance", verif_Implies(dacct.State != etypes.AccountOpen, dacct.Balance.Amount.IsZero()))
	one := sdk.OneInt()
	for g := 1; g <= ng; g++ {
		grp := s.grp[gk{dseq, g}]
		gno := e.slots(g, no)
		add("W enum ranges", inRange(int32(grp.State), 1, 4))
		gOpen := grp.State == dtypes.GroupOpen
		add("W group insufficient-funds only under an overdrawn account", verif_Implies(grp.State == dtypes.GroupInsufficientFunds, dacct.State == etypes.AccountOverdrawn))
		// C04 L5 (group part)
		add("C04 closed deployment has no open or paused group", verif_Implies(!dActive, verif_And(grp.State != dtypes.GroupOpen, grp.State != dtypes.GroupPaused)))
		// orders: contiguous 1..n
		n := 0
		for o := 1; o <= gno+1; o++ {
			if _, ok := s.ord[oidG(dseq, g, o)]; ok {
				add("W orders of a group are numbered contiguously", n == o-1)
				n = o
			}
		}
		add("W a group always has a first order", n >= 1)
		cntNonClosed := sdk.ZeroInt()
		for o := 1; o <= n; o++ {
			ord := s.ord[oidG(dseq, g, o)]
			add("W enum ranges", inRange(int32(ord.State), 1, 3))
			cntNonClosed = cntNonClosed.Add(verif_IteInt(ord.State != mtypes.OrderClosed, one, sdk.ZeroInt()))
			if o < n {
				add("W only the newest order of a group can be non-closed", ord.State == mtypes.OrderClosed)
			}
			add("C04 closed deployment has no non-closed order", verif_Implies(!dActive, ord.State == mtypes.OrderClosed))
			add("C04 order price is the group's price", ord.Spec.Price().Amount.Equal(grp.GroupSpec.Price().Amount))
			activeLeases := sdk.ZeroInt()
			for p := 1; p <= np; p++ {
				b, bok := s.bid[bididG(dseq, g, o, p)]
				l, lok := s.lease[lidG(dseq, g, o, p)]
				bacct, baok := s.acct[mtypes.EscrowAccountForBid(bididG(dseq, g, o, p))]
				pay, pok := s.pay[leasePayKey(lidG(dseq, g, o, p))]
				add("W bid and its deposit account exist together; lease and its payment exist together; lease needs its bid", verif_And(bok == baok, lok == pok, !lok || bok))
				if !bok || !baok {
					continue
				}
				add("W enum ranges", verif_And(inRange(int32(b.State), 1, 4), inRange(int32(bacct.State), 1, 2)))
				add("C04 open bid implies open order", verif_Implies(b.State == mtypes.BidOpen, ord.State == mtypes.OrderOpen))
				add("C05 bid open or matched iff its deposit account is open", verif_Iff(verif_Or(b.State == mtypes.BidOpen, b.State == mtypes.BidActive), bacct.State == etypes.AccountOpen))
				add("C03 closed or overdrawn account has zero balance", verif_Implies(bacct.State != etypes.AccountOpen, bacct.Balance.Amount.IsZero()))
				add("C04 closed deployment has no open or matched bid", verif_Implies(!dActive, verif_And(b.State != mtypes.BidOpen, b.State != mtypes.BidActive)))
				add("C04 bid price within the order's maximum", verif_And(b.Price.Amount.IsPositive(), b.Price.Amount.LTE(ord.Spec.Price().Amount)))
				add("W a matched bid has a lease; an open or lost bid has none", verif_And(verif_Implies(b.State == mtypes.BidActive, lok), verif_Implies(verif_Or(b.State == mtypes.BidOpen, b.State == mtypes.BidLost), !lok)))
				if !lok || !pok {
					continue
				}
				add("W enum ranges", verif_And(inRange(int32(l.State), 1, 3), inRange(int32(pay.State), 1, 3)))
				lActive := l.State == mtypes.LeaseActive
				activeLeases = activeLeases.Add(verif_IteInt(lActive, one, sdk.ZeroInt()))
				add("C04 active lease implies matched bid, matched order, open group, active deployment",
					verif_Implies(lActive, verif_And(b.State == mtypes.BidActive, ord.State == mtypes.OrderActive, gOpen, dActive)))
				add("W matched bid implies active lease", verif_Implies(b.State == mtypes.BidActive, lActive))
				add("C04 lease price equals its bid's price and is within the order's maximum", verif_And(l.Price.Amount.Equal(b.Price.Amount), l.Price.Amount.LTE(ord.Spec.Price().Amount)))
				add("C05 lease active iff its payment is open", verif_Iff(lActive, pay.State == etypes.PaymentOpen))
				add("C03 payment open only while its account is open", verif_Implies(pay.State == etypes.PaymentOpen, dacct.State == etypes.AccountOpen))
				add("C03 overdrawn payment only under an overdrawn account", verif_Implies(pay.State == etypes.PaymentOverdrawn, dacct.State == etypes.AccountOverdrawn))
				add("C03 closed or overdrawn payment has zero balance", verif_Implies(pay.State != etypes.PaymentOpen, pay.Balance.Amount.IsZero()))
				add("W payment rate is the lease price and positive; payment owner is the provider", verif_And(pay.Rate.Amount.Equal(l.Price.Amount), pay.Rate.Amount.IsPositive(), pay.Owner == l.LeaseID.Provider))
				add("W lease insufficient-funds only with an overdrawn payment", verif_Implies(l.State == mtypes.LeaseInsufficientFunds, pay.State == etypes.PaymentOverdrawn))
			}
			add("C04 order matched iff it has exactly one active lease", verif_And(verif_Iff(ord.State == mtypes.OrderActive, activeLeases.Equal(one)), activeLeases.LTE(one)))
		}
		add("C04 a group has at most one non-closed order", cntNonClosed.LTE(one))
		add("C04 an open group of an active deployment has exactly one non-closed order", verif_Implies(verif_And(gOpen, dActive), cntNonClosed.Equal(one)))
		add("C04 a group that is not open has no non-closed order", verif_Implies(!gOpen, cntNonClosed.IsZero()))
	}
	return cs
}

// sumBalances: all recorded escrow balances of the snapshot
func sumBalances(s state) sdk.Int {
	t := sdk.ZeroInt()
	for _, a := range s.acct {
		t = t.Add(a.Balance.Amount)
	}
	for _, p := range s.pay {
		t = t.Add(p.Balance.Amount)
	}
	return t
}
