package zzchain

import (
	"context"

	sdk "github.com/cosmos/cosmos-sdk/types"

	dtypes "github.com/ovrclk/akash/x/deployment/types"
	etypes "github.com/ovrclk/akash/x/escrow/types"
	mtypes "github.com/ovrclk/akash/x/market/types"
	ptypes "github.com/ovrclk/akash/x/provider/types"
)

const (
	hCreateDeployment = iota
	hDepositDeployment
	hUpdateDeployment
	hCloseDeployment
	hCloseGroup
	hPauseGroup
	hStartGroup
	hCreateBid
	hCloseBid
	hCreateLease
	hWithdrawLease
	hCloseLease
)

type validator interface{ ValidateBasic() error }

// mkMsg builds one arbitrary message for handler h; the returned function runs what the chain
// runs for it on the given context: ValidateBasic (ante), then the handler.  A panic is a failed transaction.
func mkMsg(e *env, h int) (signer string, target uint64, exec func(ctx sdk.Context) error) {
	var m validator
	var call func(c context.Context) error
	// the group a message names (the *_g2 universe has two)
	g := 1
	needGroup := h == hCloseGroup || h == hPauseGroup || h == hStartGroup || h == hCreateBid || h == hCloseBid || h == hCreateLease || h == hWithdrawLease || h == hCloseLease
	if nGroups > 1 && needGroup {
		g = 1 + verif_Choice("msg-group", nGroups)
		e.msgGroup = g
	}
	o := func() int { return 1 + verif_Choice("msg-order", e.slots(g, e.NO)+1) }
	p := func() int { return 1 + verif_Choice("msg-provider", e.NP) }
	signer = addr(0)
	target = 1
	switch h {
	case hCreateDeployment:
		if verif_Choice("msg-new-deployment", 2) == 1 {
			target = 3
		}
		price := amount("msg-price")
		groups := []dtypes.GroupSpec{spec(price)}
		if nGroups > 1 && verif_Choice("msg-groups", 2) == 1 {
			groups = append(groups, specN(amount("msg-price-2"), 2))
		}
		e.ngroups[target] = len(groups)
		x := &dtypes.MsgCreateDeployment{ID: did(target), Groups: groups, Version: make([]byte, 32), Deposit: coin(amount("msg-deposit"))}
		m, call = x, func(c context.Context) error { _, err := e.ds.CreateDeployment(c, x); return err }
	case hDepositDeployment:
		x := &dtypes.MsgDepositDeployment{ID: did(1), Amount: coin(amount("msg-amount"))}
		m, call = x, func(c context.Context) error { _, err := e.ds.DepositDeployment(c, x); return err }
	case hUpdateDeployment:
		v := make([]byte, 32)
		v[0] = byte(verif_Choice("msg-version", 2))
		pre := e.snapshot()
		var specs []dtypes.GroupSpec
		for gi := 1; gi <= nGroups; gi++ {
			specs = append(specs, pre.grp[gk{1, gi}].GroupSpec)
		}
		x := &dtypes.MsgUpdateDeployment{ID: did(1), Groups: specs, Version: v}
		m, call = x, func(c context.Context) error { _, err := e.ds.UpdateDeployment(c, x); return err }
	case hCloseDeployment:
		x := &dtypes.MsgCloseDeployment{ID: did(1)}
		m, call = x, func(c context.Context) error { _, err := e.ds.CloseDeployment(c, x); return err }
	case hCloseGroup:
		x := &dtypes.MsgCloseGroup{ID: gidG(1, g)}
		m, call = x, func(c context.Context) error { _, err := e.ds.CloseGroup(c, x); return err }
	case hPauseGroup:
		x := &dtypes.MsgPauseGroup{ID: gidG(1, g)}
		m, call = x, func(c context.Context) error { _, err := e.ds.PauseGroup(c, x); return err }
	case hStartGroup:
		x := &dtypes.MsgStartGroup{ID: gidG(1, g)}
		m, call = x, func(c context.Context) error { _, err := e.ds.StartGroup(c, x); return err }
	case hCreateBid:
		pi := p()
		signer = addr(pi)
		x := &mtypes.MsgCreateBid{Order: oidG(1, g, o()), Provider: addr(pi), Price: coin(amount("msg-price")), Deposit: coin(amount("msg-deposit"))}
		m, call = x, func(c context.Context) error { _, err := e.ms.CreateBid(c, x); return err }
	case hCloseBid:
		pi := p()
		signer = addr(pi)
		x := &mtypes.MsgCloseBid{BidID: bididG(1, g, o(), pi)}
		m, call = x, func(c context.Context) error { _, err := e.ms.CloseBid(c, x); return err }
	case hCreateLease:
		x := &mtypes.MsgCreateLease{BidID: bididG(1, g, o(), p())}
		m, call = x, func(c context.Context) error { _, err := e.ms.CreateLease(c, x); return err }
	case hWithdrawLease:
		pi := p()
		signer = addr(pi)
		x := &mtypes.MsgWithdrawLease{LeaseID: lidG(1, g, o(), pi)}
		m, call = x, func(c context.Context) error { _, err := e.ms.WithdrawLease(c, x); return err }
	case hCloseLease:
		x := &mtypes.MsgCloseLease{LeaseID: lidG(1, g, o(), p())}
		m, call = x, func(c context.Context) error { _, err := e.ms.CloseLease(c, x); return err }
	}
	exec = func(ctx sdk.Context) (err error) {
		defer func() {
			if r := recover(); r != nil {
				err = etypes.ErrInvalidPayment
				verif_Reach("panicked")
			}
		}()
		if err := m.ValidateBasic(); err != nil {
			return err
		}
		return call(sdk.WrapSDKContext(ctx))
	}
	return signer, target, exec
}

func deliver(e *env, h int) (string, uint64, error) {
	signer, target, exec := mkMsg(e, h)
	return signer, target, exec(e.ctx)
}

func step(h, no, np int) {
	e := newEnv(no, np)
	e.seedDeployment(1, no, np, true)
	e.seedDeployment(12, 1, 1, false) // bystander with a colliding decimal prefix
	for p := 1; p <= np; p++ {
		if h != hCreateBid || verif_Choice("provider-registered", 2) == 1 {
			if err := e.pk.Create(e.ctx, ptypes.Provider{Owner: addr(p), HostURI: "h"}); err != nil {
				panic(err)
			}
		}
	}
	e.R = amount("R")
	e.bank.module = e.bank.module.Add(e.R)
	pre := e.snapshot()
	for _, c := range e.invariant(pre, 1, no, np) {
		verif_Assume(c.ok)
	}
	for _, c := range e.invariant(pre, 12, 1, 1) {
		verif_Assume(c.ok)
	}
	e.ctx = e.ctx.WithEventManager(sdk.NewEventManager())
	signer, target, err := deliver(e, h)
	if err != nil {
		verif_Reach("rejected")
		return
	}
	verif_Reach("accepted")
	post := e.snapshot()
	for _, c := range e.invariant(post, 1, no+1, np) {
		verif_Assert(c.ok, c.label)
	}
	if target != 1 {
		for _, c := range e.invariant(post, target, 1, np) {
			verif_Assert(c.ok, c.label)
		}
	}
	// the bystander deployment (decimal-prefix sibling of the focus) still satisfies every clause
	for _, c := range e.invariant(post, 12, 2, 1) {
		verif_Assert(c.ok, c.label)
	}
	// C01: conservation and direction of transfers
	verif_Assert(!e.bank.short, "C01 escrow module always holds enough to pay out")
	verif_Assert(post.module.Equal(sumBalances(post).Add(e.R)), "C01 module balance equals the sum of recorded balances")
	// C06: only the signer's balance can go down; bystander deployment untouched
	for k, v := range pre.wallet {
		if k != signer {
			verif_Assert(post.wallet[k].GTE(v), "C06 a transaction reduces only its signer's balance")
		}
	}
	for _, x := range e.bank.log {
		if x.toModule {
			verif_Assert(x.addr == signer, "C06 only the signer pays into escrow")
		} else {
			verif_Assert(x.addr != addr(3) && x.addr != addr(4), "C01 payouts go only to parties of the deployment operated on")
		}
	}
	checkFrame(pre, post, 12)
	if e.msgGroup != 0 {
		checkOtherGroup(pre, post, 3-e.msgGroup)
	}
	checkClosedStay(pre, post)
	checkEvents(pre, post, e.ctx.EventManager().Events(), h)
}

// checkFrame: every record of deployment dseq is unchanged
func checkFrame(pre, post state, dseq uint64) {
	d0, d1 := pre.dep[dseq], post.dep[dseq]
	g0, g1 := pre.grp[gk{dseq, 1}], post.grp[gk{dseq, 1}]
	verif_Assert(verif_And(d0.State == d1.State, g0.State == g1.State), "C06 records of another deployment are untouched (deployment, group)")
	for id, o0 := range pre.ord {
		if logicalDSeq(id.DSeq) == dseq {
			verif_Assert(o0.State == post.ord[id].State, "C06 records of another deployment are untouched (order)")
		}
	}
	for id, b0 := range pre.bid {
		if logicalDSeq(id.DSeq) == dseq {
			verif_Assert(b0.State == post.bid[id].State, "C06 records of another deployment are untouched (bid)")
		}
	}
	for id, l0 := range pre.lease {
		if logicalDSeq(id.DSeq) == dseq {
			verif_Assert(l0.State == post.lease[id].State, "C06 records of another deployment are untouched (lease)")
		}
	}
	for id, a0 := range pre.acct {
		if id == dtypes.EscrowAccountForDeployment(did(dseq)) || (id.Scope == "bid" && len(id.XID) > 0 && isBidOf(id, dseq)) {
			a1 := post.acct[id]
			verif_Assert(verif_And(a0.State == a1.State, a0.Balance.Amount.Equal(a1.Balance.Amount), a0.Transferred.Amount.Equal(a1.Transferred.Amount), a0.SettledAt == a1.SettledAt),
				"C06 escrow accounts of another deployment are untouched")
		}
	}
	for key, p0 := range pre.pay {
		if p0.AccountID == dtypes.EscrowAccountForDeployment(did(dseq)) {
			p1 := post.pay[key]
			verif_Assert(verif_And(p0.State == p1.State, p0.Balance.Amount.Equal(p1.Balance.Amount), p0.Withdrawn.Amount.Equal(p1.Withdrawn.Amount)),
				"C06 escrow payments of another deployment are untouched")
		}
	}
	verif_Assert(len(post.ord) >= len(pre.ord) && len(post.bid) >= len(pre.bid) && len(post.lease) >= len(pre.lease) && len(post.acct) >= len(pre.acct) && len(post.pay) >= len(pre.pay),
		"C03 no record is ever removed")
}

// checkOtherGroup: a message that names a group (or an order, bid or lease of it) leaves the records
// of the deployment's other group alone - unless the deployment's escrow account was closed or
// overdrawn by this very transaction, which legitimately ends everything beneath the deployment
func checkOtherGroup(pre, post state, other int) {
	a0, a1 := pre.acct[dtypes.EscrowAccountForDeployment(did(1))], post.acct[dtypes.EscrowAccountForDeployment(did(1))]
	if a0.State != a1.State {
		return
	}
	const label = "C06 a message touches only the records of the group it names"
	verif_Assert(pre.grp[gk{1, other}].State == post.grp[gk{1, other}].State, label)
	for id, o0 := range pre.ord {
		if logicalDSeq(id.DSeq) == 1 && int(id.GSeq) == other {
			verif_Assert(o0.State == post.ord[id].State, label)
		}
	}
	for id, b0 := range pre.bid {
		if logicalDSeq(id.DSeq) == 1 && int(id.GSeq) == other {
			verif_Assert(b0.State == post.bid[id].State, label)
			k := mtypes.EscrowAccountForBid(id)
			verif_Assert(verif_And(pre.acct[k].State == post.acct[k].State, pre.acct[k].Balance.Amount.Equal(post.acct[k].Balance.Amount)), label)
		}
	}
	for id, l0 := range pre.lease {
		if logicalDSeq(id.DSeq) == 1 && int(id.GSeq) == other {
			verif_Assert(l0.State == post.lease[id].State, label)
			verif_Assert(pre.pay[leasePayKey(id)].State == post.pay[leasePayKey(id)].State, label)
		}
	}
	for id := range post.ord {
		if logicalDSeq(id.DSeq) == 1 && int(id.GSeq) == other {
			_, existed := pre.ord[id]
			verif_Assert(existed, label)
		}
	}
}

func isBidOf(id etypes.AccountID, dseq uint64) bool {
	for g := 1; g <= 2; g++ {
		for o := 1; o <= 3; o++ {
			for p := 1; p <= 2; p++ {
				if id == mtypes.EscrowAccountForBid(bididG(dseq, g, o, p)) {
					return true
				}
			}
		}
	}
	return false
}

// C03/C04 monotonicity: closed things stay closed
func checkClosedStay(pre, post state) {
	for id, a0 := range pre.acct {
		a1 := post.acct[id]
		verif_Assert(verif_Implies(a0.State != etypes.AccountOpen, verif_And(a1.State == a0.State, a1.Balance.Amount.Equal(a0.Balance.Amount), a1.Transferred.Amount.Equal(a0.Transferred.Amount))),
			"C03 closed or overdrawn account never changes again")
	}
	for key, p0 := range pre.pay {
		p1 := post.pay[key]
		verif_Assert(verif_Implies(p0.State != etypes.PaymentOpen, verif_And(p1.State == p0.State, p1.Balance.Amount.Equal(p0.Balance.Amount), p1.Withdrawn.Amount.Equal(p0.Withdrawn.Amount))),
			"C03 closed or overdrawn payment never changes again")
	}
	for id, l0 := range pre.lease {
		verif_Assert(verif_Implies(l0.State != mtypes.LeaseActive, post.lease[id].State == l0.State), "C04 an ended lease never becomes active again")
	}
	for id, b0 := range pre.bid {
		verif_Assert(verif_Implies(verif_Or(b0.State == mtypes.BidClosed, b0.State == mtypes.BidLost), post.bid[id].State == b0.State), "C04 a closed or lost bid never reopens")
	}
	for id, o0 := range pre.ord {
		verif_Assert(verif_Implies(o0.State == mtypes.OrderClosed, post.ord[id].State == mtypes.OrderClosed), "C04 a closed order never reopens")
	}
	for id, d0 := range pre.dep {
		verif_Assert(verif_Implies(d0.State == dtypes.DeploymentClosed, post.dep[id].State == dtypes.DeploymentClosed), "C04 a closed deployment never reopens")
	}
}

func Harness_CHAIN_CreateDeployment_12()  { step(hCreateDeployment, 1, 2) }
func Harness_CHAIN_DepositDeployment_12() { step(hDepositDeployment, 1, 2) }
func Harness_CHAIN_UpdateDeployment_12()  { step(hUpdateDeployment, 1, 2) }
func Harness_CHAIN_CloseDeployment_12()   { step(hCloseDeployment, 1, 2) }
func Harness_CHAIN_CloseGroup_12()        { step(hCloseGroup, 1, 2) }
func Harness_CHAIN_PauseGroup_12()        { step(hPauseGroup, 1, 2) }
func Harness_CHAIN_StartGroup_12()        { step(hStartGroup, 1, 2) }
func Harness_CHAIN_CreateBid_12()         { step(hCreateBid, 1, 2) }
func Harness_CHAIN_CloseBid_12()          { step(hCloseBid, 1, 2) }
func Harness_CHAIN_CreateLease_12()       { step(hCreateLease, 1, 2) }
func Harness_CHAIN_WithdrawLease_12()     { step(hWithdrawLease, 1, 2) }
func Harness_CHAIN_CloseLease_12()        { step(hCloseLease, 1, 2) }

func Harness_CHAIN_CreateDeployment_21()  { step(hCreateDeployment, 2, 1) }
func Harness_CHAIN_DepositDeployment_21() { step(hDepositDeployment, 2, 1) }
func Harness_CHAIN_UpdateDeployment_21()  { step(hUpdateDeployment, 2, 1) }
func Harness_CHAIN_CloseDeployment_21()   { step(hCloseDeployment, 2, 1) }
func Harness_CHAIN_CloseGroup_21()        { step(hCloseGroup, 2, 1) }
func Harness_CHAIN_PauseGroup_21()        { step(hPauseGroup, 2, 1) }
func Harness_CHAIN_StartGroup_21()        { step(hStartGroup, 2, 1) }
func Harness_CHAIN_CreateBid_21()         { step(hCreateBid, 2, 1) }
func Harness_CHAIN_CloseBid_21()          { step(hCloseBid, 2, 1) }
func Harness_CHAIN_CreateLease_21()       { step(hCreateLease, 2, 1) }
func Harness_CHAIN_WithdrawLease_21()     { step(hWithdrawLease, 2, 1) }
func Harness_CHAIN_CloseLease_21()        { step(hCloseLease, 2, 1) }

// the focus deployment has two groups (one order slot and one provider each): a message naming one
// group, or closing the deployment, must treat the other group correctly
func stepG2(h int) {
	nGroups = 2
	defer func() { nGroups = 1 }() // native replays share one process: do not leak into the next harness
	step(h, 1, 1)
}

func Harness_CHAIN_CreateDeployment_g2()  { stepG2(hCreateDeployment) }
func Harness_CHAIN_DepositDeployment_g2() { stepG2(hDepositDeployment) }
func Harness_CHAIN_UpdateDeployment_g2()  { stepG2(hUpdateDeployment) }
func Harness_CHAIN_CloseDeployment_g2()   { stepG2(hCloseDeployment) }
func Harness_CHAIN_CloseGroup_g2()        { stepG2(hCloseGroup) }
func Harness_CHAIN_PauseGroup_g2()        { stepG2(hPauseGroup) }
func Harness_CHAIN_StartGroup_g2()        { stepG2(hStartGroup) }
func Harness_CHAIN_CreateBid_g2()         { stepG2(hCreateBid) }
func Harness_CHAIN_CloseBid_g2()          { stepG2(hCloseBid) }
func Harness_CHAIN_CreateLease_g2()       { stepG2(hCreateLease) }
func Harness_CHAIN_WithdrawLease_g2()     { stepG2(hWithdrawLease) }
func Harness_CHAIN_CloseLease_g2()        { stepG2(hCloseLease) }

// ---------- C07: determinism by 2-run self-composition ----------
// The same message is executed twice from the same state on two forks of the context, with
// independent iteration orders for every map range inside the code under test (the engine turns
// each such range into a choice point; harness code is excluded).  State, result and events
// must be identical.
func stepDet(h, no, np int) {
	e := newEnv(no, np)
	e.seedDeployment(1, no, np, true)
	e.seedDeployment(12, 1, 1, false)
	for p := 1; p <= np; p++ {
		if err := e.pk.Create(e.ctx, ptypes.Provider{Owner: addr(p), HostURI: "h"}); err != nil {
			panic(err)
		}
	}
	pre := e.snapshot()
	for _, c := range e.invariant(pre, 1, no, np) {
		verif_Assume(c.ok)
	}
	_, _, exec := mkMsg(e, h)
	verif_MapOrderChoice(true)
	base := e.ctx
	bank0 := e.bank.clone()
	e.ctx = verif_ForkContext(base).WithEventManager(sdk.NewEventManager())
	err1 := exec(e.ctx)
	post1, ev1, log1 := e.snapshot(), e.ctx.EventManager().Events(), e.bank.log
	// natively Go's map order cannot be forced: repeat the second execution to meet several orders
	tries := 1
	if !verif_Symbolic() {
		tries = 32
	}
	for t := 0; t < tries; t++ {
		e.bank.restore(bank0)
		e.ctx = verif_ForkContext(base).WithEventManager(sdk.NewEventManager())
		err2 := exec(e.ctx)
		post2, ev2, log2 := e.snapshot(), e.ctx.EventManager().Events(), e.bank.log
		verif_Assert((err1 == nil) == (err2 == nil), "C07 repeated execution gives the same result")
		verif_Assert(sameState(post1, post2), "C07 repeated execution gives the same state")
		verif_Assert(len(ev1) == len(ev2), "C07 repeated execution emits the same events")
		if len(ev1) == len(ev2) {
			for i := range ev1 {
				verif_Assert(sameEvent(ev1[i], ev2[i]), "C07 repeated execution emits the same events")
			}
		}
		verif_Assert(len(log1) == len(log2), "C07 repeated execution makes the same transfers")
		if len(log1) == len(log2) {
			for i := range log1 {
				verif_Assert(verif_And(log1[i].toModule == log2[i].toModule, log1[i].addr == log2[i].addr, log1[i].amt.Equal(log2[i].amt)), "C07 repeated execution makes the same transfers")
			}
		}
	}
	verif_MapOrderChoice(false)
	verif_Reach("executed-twice")
}

// C07, independence from the process: the same message on the same chain state gives the same
// result on a long-running node (whose keepers have served earlier transactions) and on a node
// started afterwards - also when the module parameters were changed in between by a governance
// proposal, which writes the parameter store directly and not through the keepers.
func stepProc(h int) {
	e := newEnv(1, 1)
	e.seedDeployment(1, 1, 1, true)
	if err := e.pk.Create(e.ctx, ptypes.Provider{Owner: addr(1), HostURI: "h"}); err != nil {
		panic(err)
	}
	pre := e.snapshot()
	for _, c := range e.invariant(pre, 1, 1, 1) {
		verif_Assume(c.ok)
	}
	// the long-running node has already read its parameters while serving earlier transactions
	_ = e.dk.GetParams(e.ctx)
	_ = e.mk.GetParams(e.ctx)
	dp := dtypes.Params{DeploymentMinDeposit: coin(amount("new-deployment-min-deposit"))}
	e.dsub.SetParamSet(e.ctx, &dp)
	mp := mtypes.Params{BidMinDeposit: coin(amount("new-bid-min-deposit")), OrderMaxBids: 20}
	e.msub.SetParamSet(e.ctx, &mp)
	_, _, exec := mkMsg(e, h)
	base := e.ctx
	bank0 := e.bank.clone()
	e.ctx = verif_ForkContext(base).WithEventManager(sdk.NewEventManager())
	err1 := exec(e.ctx)
	post1, ev1 := e.snapshot(), e.ctx.EventManager().Events()
	e.bank.restore(bank0)
	e.wire() // a node started after the parameter change: fresh keepers over the same stores
	e.ctx = verif_ForkContext(base).WithEventManager(sdk.NewEventManager())
	err2 := exec(e.ctx)
	post2, ev2 := e.snapshot(), e.ctx.EventManager().Events()
	verif_Reach("executed-twice")
	if err1 == nil {
		verif_Reach("accepted")
	}
	verif_Assert((err1 == nil) == (err2 == nil), "C07 repeated execution gives the same result")
	verif_Assert(sameState(post1, post2), "C07 repeated execution gives the same state")
	verif_Assert(len(ev1) == len(ev2), "C07 repeated execution emits the same events")
}

func Harness_C07_proc_CreateDeployment() { stepProc(hCreateDeployment) }
func Harness_C07_proc_CreateBid()        { stepProc(hCreateBid) }

func sameEvent(a, b sdk.Event) bool {
	if a.Type != b.Type || len(a.Attributes) != len(b.Attributes) {
		return false
	}
	ok := true
	for i := range a.Attributes {
		ok = verif_And(ok, string(a.Attributes[i].Key) == string(b.Attributes[i].Key), string(a.Attributes[i].Value) == string(b.Attributes[i].Value))
	}
	return ok
}

func sameState(a, b state) bool {
	if len(a.dep) != len(b.dep) || len(a.grp) != len(b.grp) || len(a.ord) != len(b.ord) || len(a.bid) != len(b.bid) || len(a.lease) != len(b.lease) || len(a.acct) != len(b.acct) || len(a.pay) != len(b.pay) {
		return false
	}
	ok := a.module.Equal(b.module)
	for k, x := range a.dep {
		y := b.dep[k]
		ok = verif_And(ok, x.State == y.State, string(x.Version) == string(y.Version), x.CreatedAt == y.CreatedAt)
	}
	for k, x := range a.grp {
		ok = verif_And(ok, x.State == b.grp[k].State)
	}
	for k, x := range a.ord {
		y := b.ord[k]
		ok = verif_And(ok, x.State == y.State, x.CreatedAt == y.CreatedAt)
	}
	for k, x := range a.bid {
		y := b.bid[k]
		ok = verif_And(ok, x.State == y.State, x.Price.Amount.Equal(y.Price.Amount), x.CreatedAt == y.CreatedAt)
	}
	for k, x := range a.lease {
		y := b.lease[k]
		ok = verif_And(ok, x.State == y.State, x.Price.Amount.Equal(y.Price.Amount), x.CreatedAt == y.CreatedAt)
	}
	for k, x := range a.acct {
		y := b.acct[k]
		ok = verif_And(ok, x.State == y.State, x.Balance.Amount.Equal(y.Balance.Amount), x.Transferred.Amount.Equal(y.Transferred.Amount), x.SettledAt == y.SettledAt, x.Owner == y.Owner)
	}
	for k, x := range a.pay {
		y := b.pay[k]
		ok = verif_And(ok, x.State == y.State, x.Balance.Amount.Equal(y.Balance.Amount), x.Withdrawn.Amount.Equal(y.Withdrawn.Amount), x.Rate.Amount.Equal(y.Rate.Amount))
	}
	for k, x := range a.wallet {
		ok = verif_And(ok, x.Equal(b.wallet[k]))
	}
	return ok
}

func Harness_C07_CreateDeployment()  { stepDet(hCreateDeployment, 1, 2) }
func Harness_C07_DepositDeployment() { stepDet(hDepositDeployment, 1, 2) }
func Harness_C07_UpdateDeployment()  { stepDet(hUpdateDeployment, 1, 2) }
func Harness_C07_CloseDeployment()   { stepDet(hCloseDeployment, 1, 2) }
func Harness_C07_CloseGroup()        { stepDet(hCloseGroup, 1, 2) }
func Harness_C07_PauseGroup()        { stepDet(hPauseGroup, 1, 2) }
func Harness_C07_StartGroup()        { stepDet(hStartGroup, 1, 2) }
func Harness_C07_CreateBid()         { stepDet(hCreateBid, 1, 2) }
func Harness_C07_CloseBid()          { stepDet(hCloseBid, 1, 2) }
func Harness_C07_CreateLease()       { stepDet(hCreateLease, 1, 2) }
func Harness_C07_WithdrawLease()     { stepDet(hWithdrawLease, 1, 2) }
func Harness_C07_CloseLease()        { stepDet(hCloseLease, 1, 2) }
func Harness_C07_CreateLease_13()    { stepDet(hCreateLease, 1, 3) } // two losing bids: the order they are closed in must not depend on a map
