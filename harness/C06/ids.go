package types

//verif:pkg x/market/types

// C06.5: the market's escrow hooks decide WHICH order, bid and lease a closed escrow payment
// belongs to by parsing the payment id back into a lease id.  For every lease id the round trip
// through the real encoders and parsers is the identity, so a closing payment can only touch the
// records of the lease it was created for.

import (
	dtypes "github.com/ovrclk/akash/x/deployment/types"
)

func Harness_C06_escrow_ids() {
	id := LeaseID{Owner: verif_Addr(0), DSeq: verif_U64("dseq"), GSeq: verif_U32("gseq"), OSeq: verif_U32("oseq"), Provider: verif_Addr(1)}
	acct := dtypes.EscrowAccountForDeployment(id.DeploymentID())
	d, ok := dtypes.DeploymentIDFromEscrowAccount(acct)
	verif_Assert(ok && d.Owner == id.Owner && d.DSeq == id.DSeq, "C06 an escrow account id names exactly the deployment it was made for")
	got, ok := LeaseIDFromEscrowAccount(acct, EscrowPaymentForLease(id))
	verif_Assert(ok, "C06 an escrow payment id names exactly the lease it was made for")
	if ok {
		verif_Reach("parsed")
		verif_Assert(verif_And(got.Owner == id.Owner, got.DSeq == id.DSeq, got.GSeq == id.GSeq, got.OSeq == id.OSeq, got.Provider == id.Provider),
			"C06 an escrow payment id names exactly the lease it was made for")
	}
	// an account of another scope never resolves to a deployment or lease
	other := EscrowAccountForBid(BidID(id))
	_, ok = dtypes.DeploymentIDFromEscrowAccount(other)
	verif_Assert(!ok, "C06 a bid escrow account is never taken for a deployment account")
}
