package keeper

//verif:pkg x/cert/keeper

import (
	"bytes"

	sdk "github.com/cosmos/cosmos-sdk/types"

	"github.com/ovrclk/akash/x/cert/types"
)

func c06certAcc(label string) sdk.AccAddress {
	a, err := sdk.AccAddressFromBech32(verif_AddrSym(label))
	if err != nil {
		panic(err)
	}
	return a
}

func Harness_C06_cert_keys() {
	sa, sb := verif_Int("a-serial"), verif_Int("b-serial")
	lim := sdk.NewInt(1 << 24)
	verif_Assume(verif_And(sa.GTE(sdk.ZeroInt()), sb.GTE(sdk.ZeroInt()), sa.LT(lim), sb.LT(lim)))
	a := types.CertID{Owner: c06certAcc("a-owner"), Serial: *sa.BigInt()}
	b := types.CertID{Owner: c06certAcc("b-owner"), Serial: *sb.BigInt()}
	sameOwner := bytes.Equal(a.Owner.Bytes(), b.Owner.Bytes())
	verif_Assert(verif_Iff(bytes.HasPrefix(certificateKey(b), certificatePrefix(a.Owner)), sameOwner), "C06 a certificate key lies under an owner's prefix iff the certificate is that owner's")
	verif_Assert(verif_Iff(bytes.Equal(certificateKey(a), certificateKey(b)), verif_And(sameOwner, sa.Equal(sb))), "C06 certificate keys are injective")
	verif_Reach("cert-keys")
}
