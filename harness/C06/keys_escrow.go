package keeper

//verif:pkg x/escrow/keeper

// C06.4 (escrow store): account ids are "<scope>/<owner>/<decimal dseq>[/...]" strings.  The
// decimal renderings are arbitrary canonical digit strings of 1..N digits, so identifiers
// that are decimal prefixes of one another (1, 12, 123 ...) are inside the quantifier.

import (
	"bytes"

	"github.com/ovrclk/akash/x/escrow/types"
)

func c06digits(label string, n int) string {
	d := verif_Digits(label, n)
	for i := 0; i < n; i++ {
		verif_Assume(verif_And(d[i] >= '0', d[i] <= '9'))
	}
	if n > 1 {
		verif_Assume(d[0] != '0')
	}
	return d
}

func c06escrow(na, nb int) {
	oa, ob := verif_AddrSym("a-owner"), verif_AddrSym("b-owner")
	da, db := c06digits("a-dseq", na), c06digits("b-dseq", nb)
	a := types.AccountID{Scope: "deployment", XID: oa + "/" + da}
	b := types.AccountID{Scope: "deployment", XID: ob + "/" + db}
	same := verif_And(oa == ob, da == db)
	// payment ids of leases: "<gseq>/<oseq>/<provider>"
	pid := c06digits("gseq", 1) + "/" + c06digits("oseq", 1) + "/" + verif_AddrSym("provider")
	verif_Assert(verif_Iff(bytes.HasPrefix(paymentKey(b, pid), accountPaymentsKey(a)), same), "C06 a payment key lies under an account's payments prefix iff it is a payment of that account")
	verif_Assert(verif_Iff(bytes.Equal(accountKey(a), accountKey(b)), same), "C06 escrow account keys are injective")
	verif_Assert(!bytes.Equal(accountKey(a), paymentKey(b, pid)), "C06 escrow account and payment key spaces are disjoint")
	// bid deposit accounts "bid/<owner>/<dseq>/<gseq>/<oseq>/<provider>" never collide with deployment accounts
	c := types.AccountID{Scope: "bid", XID: ob + "/" + db + "/" + pid}
	verif_Assert(!bytes.Equal(accountKey(a), accountKey(c)) && !bytes.HasPrefix(paymentKey(b, pid), accountPaymentsKey(c)), "C06 bid and deployment escrow accounts never collide")
	verif_Reach("escrow-keys")
}

func Harness_C06_escrow_keys_11() { c06escrow(1, 1) }
func Harness_C06_escrow_keys_12() { c06escrow(1, 2) }
func Harness_C06_escrow_keys_21() { c06escrow(2, 1) }
func Harness_C06_escrow_keys_22() { c06escrow(2, 2) }
func Harness_C06_escrow_keys_13() { c06escrow(1, 3) }
func Harness_C06_escrow_keys_23() { c06escrow(2, 3) }
func Harness_C06_escrow_keys_33() { c06escrow(3, 3) }
func Harness_C06_escrow_keys_35() { c06escrow(3, 5) }
func Harness_C06_escrow_keys_55() { c06escrow(5, 5) }
