package types

// Identity of marketplace records: the Equals methods of deployment, group, order, bid and lease
// ids hold exactly when every component is equal.  The provider's inventory tells reservations
// apart with OrderID.Equals (C12), the bid engine recognises "its" lease with GroupID/BidID.Equals
// (C13), and the chain's handlers and hooks compare ids to decide what a message may touch (C06).

import (
	dtypes "github.com/ovrclk/akash/x/deployment/types"
)

func Harness_C06_id_equality() {
	owners := []string{verif_Addr(0), verif_Addr(3)}
	provs := []string{verif_Addr(1), verif_Addr(2)}
	a := LeaseID{Owner: owners[verif_Choice("a-owner", 2)], DSeq: verif_U64("a-dseq"), GSeq: verif_U32("a-gseq"), OSeq: verif_U32("a-oseq"), Provider: provs[verif_Choice("a-provider", 2)]}
	b := LeaseID{Owner: owners[verif_Choice("b-owner", 2)], DSeq: verif_U64("b-dseq"), GSeq: verif_U32("b-gseq"), OSeq: verif_U32("b-oseq"), Provider: provs[verif_Choice("b-provider", 2)]}
	sameD := verif_And(a.Owner == b.Owner, a.DSeq == b.DSeq)
	sameG := verif_And(sameD, a.GSeq == b.GSeq)
	sameO := verif_And(sameG, a.OSeq == b.OSeq)
	sameB := verif_And(sameO, a.Provider == b.Provider)
	check := func(got, want bool, what string) {
		verif_Assert(verif_Iff(got, want), "C06 two "+what+" ids are equal exactly when every component is equal")
		verif_Assert(verif_Iff(got, want), "C12 reservations are told apart by the full order id")
		verif_Assert(verif_Iff(got, want), "C13 an event concerns the order only if it names exactly the order's ids")
	}
	check(a.DeploymentID().Equals(b.DeploymentID()), sameD, "deployment")
	check(a.GroupID().Equals(b.GroupID()), sameG, "group")
	check(a.OrderID().Equals(b.OrderID()), sameO, "order")
	check(a.BidID().Equals(b.BidID()), sameB, "bid")
	check(a.Equals(b), sameB, "lease")
	var _ dtypes.GroupID = a.GroupID()
	verif_Reach("compared")
}
