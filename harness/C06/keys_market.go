package keeper

//verif:pkg x/market/keeper

// C06.4 (market store): with arbitrary identifiers, an order/bid key lies under a
// group/order prefix iff it belongs to that group/order, and keys are injective.

import (
	"bytes"

	dtypes "github.com/ovrclk/akash/x/deployment/types"
	"github.com/ovrclk/akash/x/market/types"
)

func c06oid(tag string) types.OrderID {
	return types.OrderID{Owner: verif_AddrSym(tag + "-owner"), DSeq: verif_BV64(tag + "-dseq"), GSeq: verif_BV32(tag + "-gseq"), OSeq: verif_BV32(tag + "-oseq")}
}

func Harness_C06_market_keys() {
	a, b := c06oid("a"), c06oid("b")
	ga := dtypes.GroupID{Owner: a.Owner, DSeq: a.DSeq, GSeq: a.GSeq}
	sameGroup := verif_And(a.Owner == b.Owner, a.DSeq == b.DSeq, a.GSeq == b.GSeq)
	sameOrder := verif_And(sameGroup, a.OSeq == b.OSeq)
	verif_Assert(verif_Iff(bytes.HasPrefix(orderKey(b), ordersForGroupPrefix(ga)), sameGroup), "C06 an order key lies under a group's prefix iff the order belongs to that group")
	verif_Assert(verif_Iff(bytes.Equal(orderKey(a), orderKey(b)), sameOrder), "C06 order keys are injective")
	pa, pb := verif_AddrSym("a-provider"), verif_AddrSym("b-provider")
	ba := types.BidID{Owner: a.Owner, DSeq: a.DSeq, GSeq: a.GSeq, OSeq: a.OSeq, Provider: pa}
	bb := types.BidID{Owner: b.Owner, DSeq: b.DSeq, GSeq: b.GSeq, OSeq: b.OSeq, Provider: pb}
	verif_Assert(verif_Iff(bytes.HasPrefix(bidKey(bb), bidsForOrderPrefix(a)), sameOrder), "C06 a bid key lies under an order's prefix iff the bid belongs to that order")
	verif_Assert(verif_Iff(bytes.Equal(bidKey(ba), bidKey(bb)), verif_And(sameOrder, pa == pb)), "C06 bid keys are injective")
	verif_Assert(verif_Iff(bytes.Equal(leaseKey(types.LeaseID(ba)), leaseKey(types.LeaseID(bb))), verif_And(sameOrder, pa == pb)), "C06 lease keys are injective")
	verif_Assert(!bytes.Equal(orderKey(a), bidKey(bb)) && !bytes.Equal(bidKey(ba), leaseKey(types.LeaseID(bb))) && !bytes.HasPrefix(bidKey(bb), ordersForGroupPrefix(ga)) && !bytes.HasPrefix(leaseKey(types.LeaseID(bb)), bidsForOrderPrefix(a)),
		"C06 order, bid and lease key spaces are disjoint")
	verif_Reach("market-keys")
}
