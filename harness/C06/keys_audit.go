package keeper

//verif:pkg x/audit/keeper

import (
	"bytes"

	sdk "github.com/cosmos/cosmos-sdk/types"

	"github.com/ovrclk/akash/x/audit/types"
)

func c06acc(label string) sdk.AccAddress {
	a, err := sdk.AccAddressFromBech32(verif_AddrSym(label))
	if err != nil {
		panic(err)
	}
	return a
}

func Harness_C06_audit_keys() {
	a := types.ProviderID{Owner: c06acc("a-owner"), Auditor: c06acc("a-auditor")}
	b := types.ProviderID{Owner: c06acc("b-owner"), Auditor: c06acc("b-auditor")}
	sameOwner := bytes.Equal(a.Owner.Bytes(), b.Owner.Bytes())
	verif_Assert(verif_Iff(bytes.HasPrefix(providerKey(b), providerPrefix(a.Owner)), sameOwner), "C06 an attestation key lies under a provider's prefix iff it attests that provider")
	verif_Assert(verif_Iff(bytes.Equal(providerKey(a), providerKey(b)), verif_And(sameOwner, bytes.Equal(a.Auditor.Bytes(), b.Auditor.Bytes()))), "C06 attestation keys are injective")
	verif_Reach("audit-keys")
}
