package keeper

//verif:pkg x/deployment/keeper

import (
	"bytes"

	"github.com/ovrclk/akash/x/deployment/types"
)

func Harness_C06_deployment_keys() {
	a := types.GroupID{Owner: verif_AddrSym("a-owner"), DSeq: verif_BV64("a-dseq"), GSeq: verif_BV32("a-gseq")}
	b := types.GroupID{Owner: verif_AddrSym("b-owner"), DSeq: verif_BV64("b-dseq"), GSeq: verif_BV32("b-gseq")}
	da := types.DeploymentID{Owner: a.Owner, DSeq: a.DSeq}
	db := types.DeploymentID{Owner: b.Owner, DSeq: b.DSeq}
	sameDep := verif_And(a.Owner == b.Owner, a.DSeq == b.DSeq)
	verif_Assert(verif_Iff(bytes.HasPrefix(groupKey(b), groupsKey(da)), sameDep), "C06 a group key lies under a deployment's prefix iff the group belongs to that deployment")
	verif_Assert(verif_Iff(bytes.Equal(groupKey(a), groupKey(b)), verif_And(sameDep, a.GSeq == b.GSeq)), "C06 group keys are injective")
	verif_Assert(verif_Iff(bytes.Equal(deploymentKey(da), deploymentKey(db)), sameDep), "C06 deployment keys are injective")
	verif_Assert(!bytes.Equal(deploymentKey(da), groupKey(b)) && !bytes.HasPrefix(deploymentKey(db), groupsKey(da)), "C06 deployment and group key spaces are disjoint")
	verif_Reach("deployment-keys")
}
