package zzc06

//verif:pkg zzverif/c06 (virtual package)

// C06.1: every marketplace message requires the signature of exactly the party the
// protocol assigns to it.  All address-bearing fields are arbitrary (symbolic) addresses.

import (
	sdk "github.com/cosmos/cosmos-sdk/types"

	atypes "github.com/ovrclk/akash/x/audit/types"
	ctypes "github.com/ovrclk/akash/x/cert/types"
	dtypes "github.com/ovrclk/akash/x/deployment/types"
	mtypes "github.com/ovrclk/akash/x/market/types"
	ptypes "github.com/ovrclk/akash/x/provider/types"
)

func signersOf(m sdk.Msg) (out []string, panicked bool) {
	defer func() {
		if r := recover(); r != nil {
			panicked = true
		}
	}()
	for _, a := range m.GetSigners() {
		out = append(out, a.String())
	}
	return out, false
}

func expectSigner(m sdk.Msg, want string, role string) {
	got, panicked := signersOf(m)
	verif_Assert(!panicked, "C06 GetSigners does not fail on a well-formed message ("+role+")")
	verif_Assert(len(got) == 1, "C06 exactly one signature is required ("+role+")")
	if len(got) == 1 {
		verif_Assert(got[0] == want, "C06 the required signer is the "+role)
	}
	verif_Reach(role)
}

func Harness_C06_signers() {
	tenant := verif_AddrSym("tenant")
	provider := verif_AddrSym("provider")
	auditor := verif_AddrSym("auditor")
	dseq, gseq, oseq := verif_U64("dseq"), verif_U32("gseq"), verif_U32("oseq")
	did := dtypes.DeploymentID{Owner: tenant, DSeq: dseq}
	gid := dtypes.GroupID{Owner: tenant, DSeq: dseq, GSeq: gseq}
	oid := mtypes.OrderID{Owner: tenant, DSeq: dseq, GSeq: gseq, OSeq: oseq}
	bid := mtypes.BidID{Owner: tenant, DSeq: dseq, GSeq: gseq, OSeq: oseq, Provider: provider}
	lid := mtypes.LeaseID(bid)
	switch verif_Choice("msg", 19) {
	case 0:
		expectSigner(&dtypes.MsgCreateDeployment{ID: did}, tenant, "tenant for create-deployment")
	case 1:
		expectSigner(&dtypes.MsgDepositDeployment{ID: did}, tenant, "tenant for deposit-deployment")
	case 2:
		expectSigner(&dtypes.MsgUpdateDeployment{ID: did}, tenant, "tenant for update-deployment")
	case 3:
		expectSigner(&dtypes.MsgCloseDeployment{ID: did}, tenant, "tenant for close-deployment")
	case 4:
		expectSigner(&dtypes.MsgCloseGroup{ID: gid}, tenant, "tenant for close-group")
	case 5:
		expectSigner(&dtypes.MsgPauseGroup{ID: gid}, tenant, "tenant for pause-group")
	case 6:
		expectSigner(&dtypes.MsgStartGroup{ID: gid}, tenant, "tenant for start-group")
	case 7:
		expectSigner(&mtypes.MsgCreateBid{Order: oid, Provider: provider}, provider, "provider for create-bid")
	case 8:
		expectSigner(&mtypes.MsgCloseBid{BidID: bid}, provider, "provider for close-bid")
	case 9:
		expectSigner(&mtypes.MsgCreateLease{BidID: bid}, tenant, "tenant for create-lease")
	case 10:
		expectSigner(&mtypes.MsgWithdrawLease{LeaseID: lid}, provider, "provider for withdraw-lease")
	case 11:
		expectSigner(&mtypes.MsgCloseLease{LeaseID: lid}, tenant, "tenant for close-lease")
	case 12:
		expectSigner(&ptypes.MsgCreateProvider{Owner: provider}, provider, "provider for create-provider")
	case 13:
		expectSigner(&ptypes.MsgUpdateProvider{Owner: provider}, provider, "provider for update-provider")
	case 14:
		expectSigner(&ptypes.MsgDeleteProvider{Owner: provider}, provider, "provider for delete-provider")
	case 15:
		expectSigner(&atypes.MsgSignProviderAttributes{Owner: provider, Auditor: auditor}, auditor, "auditor for sign-attributes")
	case 16:
		expectSigner(&atypes.MsgDeleteProviderAttributes{Owner: provider, Auditor: auditor}, auditor, "auditor for delete-attributes")
	case 17:
		expectSigner(&ctypes.MsgCreateCertificate{Owner: tenant}, tenant, "owner for create-certificate")
	case 18:
		expectSigner(&ctypes.MsgRevokeCertificate{ID: ctypes.CertificateID{Owner: tenant, Serial: "1"}}, tenant, "owner for revoke-certificate")
	}
	_ = gid
}
