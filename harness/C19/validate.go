package types

//verif:pkg x/deployment/types

// C19: the admission rules of MsgCreateDeployment (ValidateBasic as run by the ante
// handler, then the handler's own ValidateDeploymentGroups) against an independent
// oracle of the documented limits.  Deposit/version-at-handler/store effects are in
// the handler-level harness (harness/C19/handler.go).

import (
	sdk "github.com/cosmos/cosmos-sdk/types"
	atypes "github.com/ovrclk/akash/types"
)

var c19denoms = []string{"uakt", "akt", "uusd"}

func c19unit() (Resource, sdk.Int, sdk.Int, sdk.Int, bool) {
	cpu := verif_Int("cpu")
	mem := verif_Int("mem")
	sto := verif_Int("sto")
	count := verif_U32("count")
	price := verif_Int("price")
	denom := c19denoms[verif_Choice("denom", 3)]
	r := Resource{
		Resources: atypes.ResourceUnits{
			CPU:     &atypes.CPU{Units: atypes.ResourceValue{Val: cpu}},
			Memory:  &atypes.Memory{Quantity: atypes.ResourceValue{Val: mem}},
			Storage: &atypes.Storage{Quantity: atypes.ResourceValue{Val: sto}},
		},
		Count: count,
		Price: sdk.Coin{Denom: denom, Amount: price},
	}
	cfg := validationConfig
	ok := verif_And(
		cpu.GTE(sdk.NewIntFromUint64(uint64(cfg.MinUnitCPU))), cpu.LTE(sdk.NewIntFromUint64(uint64(cfg.MaxUnitCPU))),
		mem.GTE(sdk.NewIntFromUint64(cfg.MinUnitMemory)), mem.LTE(sdk.NewIntFromUint64(cfg.MaxUnitMemory)),
		sto.GTE(sdk.NewIntFromUint64(cfg.MinUnitStorage)), sto.LTE(sdk.NewIntFromUint64(cfg.MaxUnitStorage)),
		uint64(count) >= uint64(cfg.MinUnitCount), uint64(count) <= uint64(cfg.MaxUnitCount),
		price.GTE(sdk.NewIntFromUint64(cfg.MinUnitPrice)), price.LTE(sdk.NewIntFromUint64(cfg.MaxUnitPrice)),
		denom == "uakt",
	)
	c := sdk.NewIntFromUint64(uint64(count))
	return r, cpu.Mul(c), mem.Mul(c), sto.Mul(c), ok
}

// c19group builds a group with nunits symbolic units and returns the oracle verdict for it.
func c19group(nunits int, name string) (GroupSpec, bool) {
	g := GroupSpec{Name: name}
	tc, tm, ts := sdk.ZeroInt(), sdk.ZeroInt(), sdk.ZeroInt()
	ok := true
	for i := 0; i < nunits; i++ {
		r, c, m, s, uok := c19unit()
		g.Resources = append(g.Resources, r)
		tc, tm, ts = tc.Add(c), tm.Add(m), ts.Add(s)
		ok = verif_And(ok, uok)
	}
	cfg := validationConfig
	ok = verif_And(ok, name != "",
		nunits >= 1, nunits <= cfg.MaxGroupUnits,
		tc.IsPositive(), tc.LTE(sdk.NewIntFromUint64(cfg.MaxGroupCPU)),
		tm.IsPositive(), tm.LTE(sdk.NewIntFromUint64(cfg.MaxGroupMemory)),
		ts.IsPositive(), ts.LTE(sdk.NewIntFromUint64(cfg.MaxGroupStorage)),
	)
	return g, ok
}

func c19name(label string) string {
	if verif_Choice(label+"-len", 2) == 0 {
		return ""
	}
	return verif_Str(label, 1)
}

// accepted runs exactly what the chain runs before storing: ValidateBasic (ante), then the
// handler's group validation.  A panic is a rejected transaction.
func c19accepted(msg MsgCreateDeployment) (ok bool) {
	defer func() {
		if r := recover(); r != nil {
			ok = false
		}
	}()
	if err := msg.ValidateBasic(); err != nil {
		return false
	}
	if err := ValidateDeploymentGroups(msg.Groups); err != nil {
		return false
	}
	return true
}

func c19check(msg MsgCreateDeployment, oracle bool) {
	acc := c19accepted(msg)
	if acc {
		verif_Reach("accepted")
	} else {
		verif_Reach("rejected")
	}
	verif_ObserveBool("accepted", acc)
	verif_Assert(verif_Implies(acc, oracle), "C19 accepted create-deployment satisfies every documented limit")
}

func c19msg(groups []GroupSpec, vlen int) MsgCreateDeployment {
	return MsgCreateDeployment{
		ID:      DeploymentID{Owner: verif_Addr(0), DSeq: 7},
		Groups:  groups,
		Version: make([]byte, vlen),
		Deposit: sdk.Coin{Denom: "uakt", Amount: sdk.NewInt(5000000)},
	}
}

func c19run(ngroups, nunits int) {
	cfg := validationConfig
	var groups []GroupSpec
	ok := verif_And(ngroups >= 1, ngroups <= cfg.MaxGroupCount)
	names := make([]string, ngroups)
	for i := 0; i < ngroups; i++ {
		names[i] = c19name("name")
		g, gok := c19group(nunits, names[i])
		groups = append(groups, g)
		ok = verif_And(ok, gok)
		for j := 0; j < i; j++ {
			ok = verif_And(ok, names[i] != names[j])
		}
	}
	c19check(c19msg(groups, ManifestVersionLength), ok)
}

func Harness_C19_g0()   { c19run(0, 0) }
func Harness_C19_g1u0() { c19run(1, 0) }
func Harness_C19_g1u1() { c19run(1, 1) }
func Harness_C19_g1u2() { c19run(1, 2) }
func Harness_C19_g2u1() { c19run(2, 1) }
func Harness_C19_g2u2() { c19run(2, 2) }
func Harness_C19_g3u1() { c19run(3, 1) }

// version length: 0, 31, 32, 33 with one valid concrete group
func c19validUnit() Resource {
	return Resource{
		Resources: atypes.ResourceUnits{
			CPU:     &atypes.CPU{Units: atypes.NewResourceValue(100)},
			Memory:  &atypes.Memory{Quantity: atypes.NewResourceValue(64 << 20)},
			Storage: &atypes.Storage{Quantity: atypes.NewResourceValue(64 << 20)},
		},
		Count: 1,
		Price: sdk.NewInt64Coin("uakt", 10),
	}
}

func Harness_C19_version() {
	lens := []int{0, 31, 32, 33}
	n := lens[verif_Choice("vlen", 4)]
	g := GroupSpec{Name: "g", Resources: []Resource{c19validUnit()}}
	c19check(c19msg([]GroupSpec{g}, n), n == 32)
}

// many groups / many units: sizes just beyond the maxima, contents concrete and valid
func Harness_C19_maxgroups() {
	cfg := validationConfig
	n := cfg.MaxGroupCount + verif_Choice("over", 2) // max, max+1
	var groups []GroupSpec
	for i := 0; i < n; i++ {
		groups = append(groups, GroupSpec{Name: string(rune('A' + i)), Resources: []Resource{c19validUnit()}})
	}
	c19check(c19msg(groups, ManifestVersionLength), n <= cfg.MaxGroupCount)
}

func Harness_C19_maxunits() {
	cfg := validationConfig
	n := cfg.MaxGroupUnits + verif_Choice("over", 2)
	g := GroupSpec{Name: "g"}
	for i := 0; i < n; i++ {
		g.Resources = append(g.Resources, c19validUnit())
	}
	c19check(c19msg([]GroupSpec{g}, ManifestVersionLength), n <= cfg.MaxGroupUnits)
}

// nil resource pointers must be rejected
func Harness_C19_nilunits() {
	u := c19validUnit()
	switch verif_Choice("which", 3) {
	case 0:
		u.Resources.CPU = nil
	case 1:
		u.Resources.Memory = nil
	case 2:
		u.Resources.Storage = nil
	}
	g := GroupSpec{Name: "g", Resources: []Resource{u}}
	c19check(c19msg([]GroupSpec{g}, ManifestVersionLength), false)
}
