package events

//verif:pkg events

// C15, feeder side: publishEvents hands the chain's events to the bus in the order the chain
// delivered them (transactions back to back included), so that every subscriber sees publication
// order = chain order.  The real publishEvents loop runs against an environment channel of
// transaction results and a recording bus.  Goroutines the loop might start complete in ANY order
// (verif_AnyTaskOrder).  Natively the recording bus is slow to accept the first event.

import (
	"context"
	"time"

	abci "github.com/tendermint/tendermint/abci/types"
	ctypes "github.com/tendermint/tendermint/rpc/core/types"
	tmtmtypes "github.com/tendermint/tendermint/types"

	"github.com/ovrclk/akash/pubsub"
	dtypes "github.com/ovrclk/akash/x/deployment/types"
	mtypes "github.com/ovrclk/akash/x/market/types"
)

type c15fBus struct {
	got   *[]uint64 // dseq of every published order event, in publication order
	first *bool
}

func (b c15fBus) Publish(ev pubsub.Event) error {
	if !verif_Symbolic() && !*b.first {
		*b.first = true
		time.Sleep(120 * time.Millisecond) // a busy bus: slow to accept this event
	}
	switch e := ev.(type) {
	case mtypes.EventOrderCreated:
		*b.got = append(*b.got, e.ID.DSeq)
	case mtypes.EventOrderClosed:
		*b.got = append(*b.got, e.ID.DSeq)
	}
	return nil
}
func (b c15fBus) Subscribe() (pubsub.Subscriber, error) { return nil, nil }
func (b c15fBus) Close()                                {}
func (b c15fBus) Done() <-chan struct{}                 { return nil }

func c15fTx(dseq uint64, ok bool) ctypes.ResultEvent {
	oid := mtypes.MakeOrderID(dtypes.MakeGroupID(dtypes.DeploymentID{Owner: verif_Addr(0), DSeq: dseq}, 1), 1)
	res := abci.ResponseDeliverTx{Events: []abci.Event{abci.Event(mtypes.NewEventOrderCreated(oid).ToSDKEvent())}}
	if !ok {
		res.Code = 5 // failed transaction: its events are not published
	}
	return ctypes.ResultEvent{Data: tmtmtypes.EventDataTx{TxResult: abci.TxResult{Result: res}}}
}

func Harness_C15_feeder() {
	var got []uint64
	first := false
	bus := c15fBus{got: &got, first: &first}
	ch := make(chan ctypes.ResultEvent)
	ok2 := verif_Choice("second-tx-ok", 2) == 1
	delivered := 3 // transaction results handed to the loop (the environment may fall silent earlier)
	check := func() {
		var want []uint64
		for n := 1; n <= delivered; n++ {
			if n != 2 || ok2 {
				want = append(want, uint64(n))
			}
		}
		verif_Reach("fed")
		verif_Assert(len(got) == len(want), "C15 every chain event is published exactly once")
		for i := range got {
			if i < len(want) {
				verif_Assert(got[i] == want[i], "C15 events are published in the order the chain delivered them")
			}
		}
	}
	if verif_Symbolic() {
		delivered = 0
		verif_EnvChan(ch, "tx", 3, func() interface{} {
			verif_Pick("tx", 1)
			delivered++
			return c15fTx(uint64(delivered), delivered != 2 || ok2)
		})
		verif_AnyTaskOrder(true)
		verif_OnQuiescent(check)
		verif_Steps(5)
		_ = publishEvents(context.Background(), ch, bus)
		return
	}
	ctx, cancel := context.WithCancel(context.Background())
	done := make(chan struct{})
	go func() { _ = publishEvents(ctx, ch, bus); close(done) }()
	for n := 1; n <= 3; n++ {
		ch <- c15fTx(uint64(n), n != 2 || ok2)
	}
	time.Sleep(400 * time.Millisecond)
	cancel()
	<-done
	check()
}
