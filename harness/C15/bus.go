package pubsub

//verif:pkg pubsub

// C15 (step lemmas): ONE iteration of the real (*bus).run body, from an arbitrary bus state
// (root or subscriber mode, k buffered events, n children), for each thing that can happen
// (publish, emit, subscribe/clone, unsubscribe, shutdown).  The end-to-end statement over
// concurrent goroutines follows from these lemmas only by a hand argument (per-subscriber FIFO
// invariant: delivered ++ buffer = published since subscription) that is NOT solver-checked.

import (
	"time"

	lifecycle "github.com/boz/go-lifecycle"
)

type c15env struct {
	b        *bus
	children []*bus
	pre      []Event
	got      map[*bus][]Event // events handed to each child
	stops    map[*bus]int     // shutdown signals per child
	emitted  []Event
	parent   chan *bus
	notified int
	reply    chan Subscriber
	step     string
	dying    *bus // a child that has begun shutting down but whose unsubscribe has not been processed yet
}

// c15dying: the first child is already shutting down (set by the *_d harness variants)
var c15dying bool

func c15new(nev, nchildren int, subscriber bool) *c15env {
	e := &c15env{got: map[*bus][]Event{}, stops: map[*bus]int{}, parent: make(chan *bus, 4)}
	b := &bus{subscriptions: map[*bus]bool{}, pubch: make(chan Event), subch: make(chan chan<- Subscriber), unsubch: make(chan *bus), lc: lifecycle.New()}
	if subscriber {
		b.eventch = make(chan Event)
		b.parentch = e.parent
	}
	for i := 0; i < nev; i++ {
		b.evbuf = append(b.evbuf, 10+i)
		e.pre = append(e.pre, 10+i)
	}
	for i := 0; i < nchildren; i++ {
		c := &bus{subscriptions: map[*bus]bool{}, pubch: make(chan Event), subch: make(chan chan<- Subscriber), unsubch: make(chan *bus), lc: lifecycle.New(),
			eventch: make(chan Event), parentch: b.unsubch}
		b.subscriptions[c] = true
		e.children = append(e.children, c)
	}
	if c15dying && nchildren > 0 {
		e.dying = e.children[0]
		e.dying.lc.ShutdownInitiated(nil) // nobody reads its pubch any more; its unsubscribe is on the way
	}
	e.b = b
	return e
}

func (e *c15env) oracle(returned bool) {
	b := e.b
	verif_Assert(returned, "C15 a bus step never blocks")
	switch e.step {
	case "publish":
		for _, c := range e.children {
			if c == e.dying {
				continue // a closing subscriber receives nothing more; it must not hold up the others
			}
			verif_Assert(len(e.got[c]) == 1 && e.got[c][0] == Event(99), "C15 a published event is handed to every subscriber exactly once")
		}
	case "emit":
		verif_Assert(len(e.emitted) == 1 && len(e.pre) > 0 && e.emitted[0] == e.pre[0], "C15 a subscriber emits its oldest undelivered event")
	case "subscribe":
		verif_Assert(len(e.reply) == 1, "C15 a subscribe request is answered exactly once")
		if len(e.reply) == 1 {
			s := (<-e.reply).(*bus)
			verif_Assert(len(s.evbuf) == len(e.pre), "C15 a clone starts with exactly the undelivered events of the original")
			for i := range s.evbuf {
				if i < len(e.pre) {
					verif_Assert(s.evbuf[i] == e.pre[i], "C15 a clone starts with exactly the undelivered events of the original")
				}
			}
			if len(s.evbuf) > 0 && len(e.pre) > 0 {
				s.evbuf[0] = 12345
				verif_Assert(len(b.evbuf) == 0 || b.evbuf[0] != Event(12345), "C15 a clone's buffer is not shared with the original")
			}
		}
	}
	// the undelivered-event buffer after the step
	want := append([]Event{}, e.pre...)
	switch {
	case e.step == "emit" && len(want) > 0:
		want = want[1:]
	case e.step == "publish" && b.eventch != nil:
		want = append(want, Event(99))
	}
	if b.eventch != nil {
		verif_Assert(len(b.evbuf) == len(want), "C15 the undelivered buffer changes by exactly the emitted or published event")
		for i := range want {
			if i < len(b.evbuf) {
				verif_Assert(b.evbuf[i] == want[i], "C15 the undelivered buffer keeps publication order")
			}
		}
	}
	if e.step != "publish" {
		for _, c := range e.children {
			verif_Assert(len(e.got[c]) == 0, "C15 nothing is handed to subscribers unless an event was published")
		}
	}
	if e.step != "emit" {
		verif_Assert(len(e.emitted) == 0, "C15 nothing is emitted unless the consumer reads")
	}
	// after shutdown: every child signalled exactly once, every unsubscribe collected, parent told once
	for _, c := range e.children {
		want := 1
		if e.step == "unsubscribe" && c == e.children[0] {
			want = 0 // already gone
		}
		if c == e.dying {
			want = 0 // already shutting down on its own
		}
		verif_Assert(e.stops[c] == want, "C15 closing a bus signals every subscriber exactly once")
	}
	verif_Assert(len(b.subscriptions) == 0, "C15 closing a bus collects every subscriber")
	if b.parentch != nil {
		verif_Assert(e.notified == 1, "C15 a closing subscriber notifies its parent exactly once")
	}
}

func c15symbolic(nev, nchildren int, subscriber bool) {
	e := c15new(nev, nchildren, subscriber)
	b := e.b
	verif_MapOrderChoice(e.dying != nil) // the closing child may come before or after the live ones
	for _, c := range e.children {
		c := c
		if c == e.dying {
			continue
		}
		verif_EnvSinkFn(c.pubch, "child-pub", func(v interface{}) { e.got[c] = append(e.got[c], v) })
		verif_EnvSinkFn(c.lc.ShutdownRequest(), "child-stop", func(v interface{}) { e.stops[c]++ })
	}
	if subscriber {
		verif_EnvSinkFn(b.eventch, "eventch", func(v interface{}) { verif_Log("emit:0"); e.emitted = append(e.emitted, v); e.step = "emit" })
		verif_EnvSinkFn(e.parent, "parent", func(v interface{}) { e.notified++ })
	}
	verif_EnvChan(b.pubch, "publish", 1, func() interface{} { verif_Pick("publish", 1); e.step = "publish"; return Event(99) })
	verif_EnvChan(b.subch, "subscribe", 1, func() interface{} {
		verif_Pick("subscribe", 1)
		e.step = "subscribe"
		e.reply = make(chan Subscriber, 1)
		return (chan<- Subscriber)(e.reply)
	})
	inShutdown := false
	verif_EnvChan(b.unsubch, "unsubscribe", 8, func() interface{} {
		if !inShutdown {
			verif_Pick("unsubscribe", 1)
			e.step = "unsubscribe"
			return e.children[0]
		}
		// during shutdown every remaining subscriber answers the shutdown signal by unsubscribing
		for c := range b.subscriptions {
			return c
		}
		panic("no subscriber left")
	})
	verif_EnvFinal(b.lc.ShutdownRequest(), "shutdown", 1, func() interface{} {
		verif_Pick("shutdown", 1)
		inShutdown = true
		verif_EnvLimit(b.unsubch, 8)
		// a subscriber created in this step is a live child too: it will take the shutdown signal
		for c := range b.subscriptions {
			known := false
			for _, k := range e.children {
				known = known || k == c
			}
			if !known {
				c := c
				e.children = append(e.children, c)
				verif_EnvSinkFn(c.lc.ShutdownRequest(), "child-stop", func(v interface{}) { e.stops[c]++ })
			}
		}
		return error(nil)
	})
	verif_Steps(1)
	verif_ParkBlockedTasks(true) // the new subscriber's own loop is another bus: covered by the same lemmas
	if nchildren == 0 {
		verif_EnvLimit(b.unsubch, 0)
	}
	b.run()
	verif_Reach("stepped")
	e.oracle(true)
}

func c15native(nev, nchildren int, subscriber bool) {
	e := c15new(nev, nchildren, subscriber)
	b := e.b
	done := make(chan struct{})
	lock := make(chan struct{}, 1)
	lock <- struct{}{}
	with := func(f func()) { <-lock; f(); lock <- struct{}{} }
	for _, c := range e.children {
		c := c
		if c == e.dying {
			go func() { // a closing child: reads nothing; its unsubscribe reaches the parent only during the parent's shutdown
				select {
				case <-b.lc.ShuttingDown():
					b.unsubch <- c
				case <-done:
				}
			}()
			continue
		}
		go func() { // a live child: takes published events, and on shutdown unsubscribes from its parent
			for {
				select {
				case ev := <-c.pubch:
					with(func() { e.got[c] = append(e.got[c], ev) })
				case <-c.lc.ShutdownRequest():
					with(func() { e.stops[c]++ })
					b.unsubch <- c
					return
				case <-done:
					return
				}
			}
		}()
	}
	go func() {
		for {
			select {
			case <-e.parent:
				with(func() { e.notified++ })
			case <-done:
				return
			}
		}
	}()
	fin := make(chan struct{})
	go func() { b.run(); close(fin) }()
	for _, s := range verif_Schedule() {
		kind, _, _ := verif_Step(s)
		switch kind {
		case "publish":
			e.step = "publish"
			select {
			case b.pubch <- Event(99):
			case <-time.After(time.Second):
			}
		case "subscribe":
			e.step = "subscribe"
			e.reply = make(chan Subscriber, 1)
			select {
			case b.subch <- e.reply:
			case <-time.After(time.Second):
			}
		case "unsubscribe":
			if e.step == "" && len(e.children) > 0 {
				e.step = "unsubscribe"
				select {
				case b.unsubch <- e.children[0]:
				case <-time.After(time.Second):
				}
			}
		case "emit":
			e.step = "emit"
			select {
			case ev := <-b.eventch:
				e.emitted = append(e.emitted, ev)
			case <-time.After(time.Second):
			}
		case "shutdown":
			go b.lc.ShutdownAsync(nil)
		}
		verif_Settle()
	}
	returned := false
	select {
	case <-fin:
		returned = true
	case <-time.After(3 * time.Second):
	}
	close(done)
	verif_Settle()
	verif_Reach("stepped")
	with(func() { e.oracle(returned) })
}

func c15(nev, nchildren int, subscriber bool) {
	if verif_Symbolic() {
		c15symbolic(nev, nchildren, subscriber)
	} else {
		c15native(nev, nchildren, subscriber)
	}
}

func Harness_C15_root_0()  { c15(0, 0, false) }
func Harness_C15_root_2()  { c15(0, 2, false) }
func Harness_C15_sub_0_2() { c15(0, 2, true) }
func Harness_C15_sub_1_0() { c15(1, 0, true) }
func Harness_C15_sub_1_1() { c15(1, 1, true) }
func Harness_C15_sub_2_0() { c15(2, 0, true) }
func Harness_C15_sub_2_2() { c15(2, 2, true) }
func Harness_C15_sub_3_1() { c15(3, 1, true) }

// one child is already closing when the step happens
func c15d(nev, nchildren int, subscriber bool) {
	c15dying = true
	defer func() { c15dying = false }() // native replays share one process
	c15(nev, nchildren, subscriber)
}
func Harness_C15_root_2d()  { c15d(0, 2, false) }
func Harness_C15_sub_1_2d() { c15d(1, 2, true) }
func Harness_C15_root_3d()  { c15d(0, 3, false) }

// ---- bounded sequences on one subscriber loop ----
// Several steps of the real loop in subscriber mode: events are published to it and its consumer
// reads, in every scheduler-chosen order.  At every quiescent point
//     (events handed to the consumer) ++ (undelivered buffer) == (buffer at the start) ++ (events published)
// in order - the per-subscriber FIFO invariant the end-to-end argument rests on, here over a
// bounded sequence instead of a single step.
func c15sequence(nev, steps int) {
	e := c15new(nev, 0, true)
	b := e.b
	var published []Event
	check := func() {
		verif_Reach("sequence")
		want := append(append([]Event{}, e.pre...), published...)
		got := append(append([]Event{}, e.emitted...), b.evbuf...)
		verif_Assert(len(got) == len(want), "C15 every event reaches the subscriber exactly once")
		for i := range want {
			if i < len(got) {
				verif_Assert(got[i] == want[i], "C15 events reach the subscriber in publication order")
			}
		}
	}
	if verif_Symbolic() {
		verif_EnvSinkFn(b.eventch, "eventch", func(v interface{}) { verif_Log("emit:0"); e.emitted = append(e.emitted, v) })
		verif_EnvSinkFn(e.parent, "parent", func(v interface{}) { e.notified++ })
		verif_EnvChan(b.pubch, "publish", 3, func() interface{} {
			verif_Pick("publish", 1)
			ev := Event(100 + len(published))
			published = append(published, ev)
			return ev
		})
		verif_EnvLimit(b.unsubch, 0)
		verif_OnQuiescent(check)
		verif_Steps(steps)
		b.run()
		return
	}
	fin := make(chan struct{})
	go func() { b.run(); close(fin) }()
	go func() {
		select {
		case <-e.parent:
		case <-fin:
		}
	}()
	for _, s := range verif_Schedule() {
		kind, _, _ := verif_Step(s)
		switch kind {
		case "publish":
			ev := Event(100 + len(published))
			select {
			case b.pubch <- ev:
				published = append(published, ev)
			case <-time.After(time.Second):
			}
		case "emit":
			select {
			case ev := <-b.eventch:
				e.emitted = append(e.emitted, ev)
			case <-time.After(time.Second):
			}
		}
		verif_Settle()
	}
	go b.lc.ShutdownAsync(nil)
	select {
	case <-fin:
	case <-time.After(3 * time.Second):
	}
	check()
}

func Harness_C15_sequence_0_4() { c15sequence(0, 4) }
func Harness_C15_sequence_1_5() { c15sequence(1, 5) }
func Harness_C15_sequence_2_6() { c15sequence(2, 6) }

// Publisher-side lemma: "closing a subscriber never blocks publishers".  A bus whose loop no
// longer reads its publish channel (it is inside its shutdown path, e.g. handing its unsubscribe
// notice to the parent) starts shutting down at an arbitrary moment relative to the Publish call;
// Publish must return once shutdown has BEGUN, it must not wait for the shutdown to complete
// (the parent that would let it complete may be the very caller of Publish).
func Harness_C15_publish_closing() {
	b := &bus{subscriptions: map[*bus]bool{}, pubch: make(chan Event), subch: make(chan chan<- Subscriber), unsubch: make(chan *bus), lc: lifecycle.New(),
		eventch: make(chan Event), parentch: make(chan *bus)}
	if verif_Symbolic() {
		// shutdown begins at some point: before the call, or while the publisher waits
		verif_EnvFinal(b.lc.ShuttingDown(), "closing", 1, func() interface{} { verif_Pick("closing", 1); return struct{}{} })
		verif_OnQuiescent(func() {
			verif_Assert(false, "C15 a publisher is never blocked by a subscriber that is closing")
		})
		verif_Steps(0)
		err := b.Publish(1)
		verif_Reach("returned")
		verif_Assert(err == ErrNotRunning, "C15 publishing to a closing subscriber reports not-running")
		return
	}
	early := false
	for _, st := range verif_Schedule() {
		// the poll came too early iff the schedule records the close after it
		if k, _, _ := verif_Step(st); k == "closing" {
			early = true
		}
	}
	_ = early
	res := make(chan error, 1)
	go func() { res <- b.Publish(1) }()
	time.Sleep(20 * time.Millisecond)
	b.lc.ShutdownInitiated(nil) // shutdown begins while the publisher waits; nobody completes it
	select {
	case err := <-res:
		verif_Reach("returned")
		verif_Assert(err == ErrNotRunning, "C15 publishing to a closing subscriber reports not-running")
	case <-time.After(time.Second):
		verif_Assert(false, "C15 a publisher is never blocked by a subscriber that is closing")
	}
}
