package kube

//verif:pkg provider/cluster/kube

// C11: Kubernetes objects generated for a lease are sandboxed and capped:
//  (a) the namespace name derived from any lease is a valid DNS-1123 label (for every digest);
//  (b) containers are unprivileged, cannot escalate, get no service-account token, limits equal the
//      leased cpu/memory/storage and 1 <= request <= limit for every commit level;
//  (c) every generated object that carries a namespace / namespace selector uses the lease's namespace;
//  (d) with network policies on, evaluated for an arbitrary peer / address / port: ingress from outside
//      the namespace only from the ingress controller or to globally exposed non-ingress ports, no
//      egress to private ranges outside the namespace except DNS.

import (
	"context"
	"strconv"
	"strings"

	clusterUtil "github.com/ovrclk/akash/provider/cluster/util"

	"github.com/tendermint/tendermint/libs/log"
	corev1 "k8s.io/api/core/v1"
	netv1 "k8s.io/api/networking/v1"

	"github.com/ovrclk/akash/manifest"
	atypes "github.com/ovrclk/akash/types"
	mtypes "github.com/ovrclk/akash/x/market/types"

	sdk "github.com/cosmos/cosmos-sdk/types"
)

func c11lid() mtypes.LeaseID {
	return mtypes.LeaseID{Owner: verif_Addr(0), DSeq: 7, GSeq: 1, OSeq: 2, Provider: verif_Addr(1)}
}

// (a) namespace name: real lidNS code on an arbitrary 28-byte digest (SHA-224 is uninterpreted
// for a symbolic lease id)
func Harness_C11_namespace() {
	lid := mtypes.LeaseID{Owner: verif_AddrSym("owner"), DSeq: 7, GSeq: 1, OSeq: 2, Provider: verif_Addr(1)}
	ns := lidNS(lid)
	verif_Assert(len(ns) >= 1 && len(ns) <= 63, "C11 namespace name has a valid DNS label length")
	for i := 0; i < len(ns); i++ {
		c := ns[i]
		verif_Assert(verif_Or(verif_And(c >= '0', c <= '9'), verif_And(c >= 'a', c <= 'z')), "C11 namespace name is a valid DNS-1123 label")
	}
	verif_Assert(lidNS(lid) == ns, "C11 the namespace of a lease is a function of the lease id")
	verif_Reach("namespace")
}

func c11resources() (atypes.ResourceUnits, sdk.Int, sdk.Int, sdk.Int) {
	// bit-vector inputs keep the float64 commit-level kernel inside the FP/BV theories
	c, m, s := verif_BV64("cpu"), verif_BV64("memory"), verif_BV64("storage")
	const lim = 1 << 44
	verif_Assume(verif_And(c >= 1, m >= 1, s >= 1, c <= lim, m <= lim, s <= lim))
	cpu, mem, sto := sdk.NewIntFromUint64(c), sdk.NewIntFromUint64(m), sdk.NewIntFromUint64(s)
	return atypes.ResourceUnits{
		CPU:     &atypes.CPU{Units: atypes.ResourceValue{Val: cpu}},
		Memory:  &atypes.Memory{Quantity: atypes.ResourceValue{Val: mem}},
		Storage: &atypes.Storage{Quantity: atypes.ResourceValue{Val: sto}},
	}, cpu, mem, sto
}

// commit levels: a finite set of factors (a fully symbolic float64 factor makes the floating-point
// queries time out on every solver available here; stated as a bound)
var c11levels = []float64{0, 0.5, 1, 1.5, 2, 3, 10, 1024}

func c11level(label string) float64 { return c11levels[verif_Choice(label, len(c11levels))] }

// (b) container
func Harness_C11_container() {
	units, cpu, mem, sto := c11resources()
	lvl := []float64{0, 0.5, 1}[verif_Choice("commit-level", 3)] // no overcommit here: the float kernel has its own harness
	settings := Settings{CPUCommitLevel: lvl, MemoryCommitLevel: lvl, StorageCommitLevel: lvl,
		DeploymentRuntimeClass: []string{"", "none", "gvisor"}[verif_Choice("runtime-class", 3)]}
	svc := &manifest.Service{Name: "web", Image: "img", Resources: units, Count: verif_U32("count"),
		Expose: []manifest.ServiceExpose{{Port: verif_U16("port"), Proto: manifest.TCP, Global: verif_Bool("global")}}}
	group := &manifest.Group{Name: "g", Services: []manifest.Service{*svc}}
	b := newDeploymentBuilder(log.NewNopLogger(), settings, c11lid(), group, svc)
	d, err := b.create()
	verif_Assert(err == nil && d != nil, "C11 deployment object is generated")
	if err != nil || d == nil {
		return
	}
	spec := d.Spec.Template.Spec
	verif_Assert(spec.AutomountServiceAccountToken != nil && !*spec.AutomountServiceAccountToken, "C11 workloads get no service-account token")
	verif_Assert(len(spec.Containers) == 1, "C11 one container per service")
	for _, c := range spec.Containers {
		sc := c.SecurityContext
		verif_Assert(sc != nil && sc.Privileged != nil && !*sc.Privileged, "C11 containers are unprivileged")
		verif_Assert(sc != nil && sc.AllowPrivilegeEscalation != nil && !*sc.AllowPrivilegeEscalation, "C11 containers cannot escalate privilege")
		lcpu, rcpu := c.Resources.Limits[corev1.ResourceCPU], c.Resources.Requests[corev1.ResourceCPU]
		lmem, rmem := c.Resources.Limits[corev1.ResourceMemory], c.Resources.Requests[corev1.ResourceMemory]
		lsto, rsto := c.Resources.Limits[corev1.ResourceEphemeralStorage], c.Resources.Requests[corev1.ResourceEphemeralStorage]
		verif_Assert(verif_And(sdk.NewInt(lcpu.MilliValue()).Equal(cpu), sdk.NewInt(lmem.Value()).Equal(mem), sdk.NewInt(lsto.Value()).Equal(sto)), "C11 container limits equal the leased cpu, memory and storage")
		verif_Assert(verif_And(rcpu.MilliValue() >= 1, rcpu.MilliValue() <= lcpu.MilliValue()), "C11 cpu request is at least 1 and never exceeds the limit")
		verif_Assert(verif_And(rmem.Value() >= 1, rmem.Value() <= lmem.Value()), "C11 memory request is at least 1 and never exceeds the limit")
		verif_Assert(verif_And(rsto.Value() >= 1, rsto.Value() <= lsto.Value()), "C11 storage request is at least 1 and never exceeds the limit")
	}
	ns := lidNS(c11lid())
	verif_Assert(d.Labels[akashNetworkNamespace] == ns && d.Spec.Selector.MatchLabels[akashNetworkNamespace] == ns && d.Spec.Template.Labels[akashNetworkNamespace] == ns,
		"C11 deployment, selector and pods are labelled with the lease's namespace")
	// update path keeps the same guarantees
	d2, _ := b.update(d)
	for _, c := range d2.Spec.Template.Spec.Containers {
		sc := c.SecurityContext
		verif_Assert(sc != nil && sc.Privileged != nil && !*sc.Privileged && sc.AllowPrivilegeEscalation != nil && !*sc.AllowPrivilegeEscalation, "C11 updated containers stay unprivileged")
	}
	verif_Reach("container")
}

// (b') the float64 commit-level kernel on its own: for every leased value and every listed
// overcommit factor the computed request is at least 1 and never above the leased value
func Harness_C11_commit() {
	v := verif_BV64("value")
	verif_Assume(verif_And(v >= 1, v <= 1<<44))
	lvl := c11level("commit-level")
	got := clusterUtil.ComputeCommittedResources(lvl, atypes.ResourceValue{Val: sdk.NewIntFromUint64(v)})
	r := got.Value()
	verif_Assert(verif_And(r >= 1, r <= v), "C11 committed request is at least 1 and never exceeds the leased value")
	if lvl <= 1 {
		verif_Assert(r == v, "C11 no undercommit: a factor up to 1 requests the leased value")
	}
	verif_Reach("commit")
}

// ---------- (d) network policy semantics ----------

type c11peer struct {
	sameNS       bool // pod in the lease's namespace
	nsIngress    bool // namespace labelled app.kubernetes.io/name=ingress-nginx
	podIngress   bool // pod labelled app.kubernetes.io/name=ingress-nginx
}

func c11selMatches(sel map[string]string, ns string, nsIsLease, isIngress bool) bool {
	ok := true
	for k, v := range sel {
		switch k {
		case akashNetworkNamespace:
			ok = verif_And(ok, nsIsLease, v == ns)
		case "app.kubernetes.io/name":
			ok = verif_And(ok, isIngress, v == "ingress-nginx")
		default:
			ok = false
		}
	}
	return ok
}

func c11peerMatches(p netv1.NetworkPolicyPeer, ns string, peer c11peer) bool {
	if p.IPBlock != nil {
		return false // pod peers are matched by selectors
	}
	ok := true
	if p.NamespaceSelector != nil {
		ok = verif_And(ok, c11selMatches(p.NamespaceSelector.MatchLabels, ns, peer.sameNS, peer.nsIngress))
	} else {
		ok = verif_And(ok, peer.sameNS) // pod selector alone selects pods of the policy's namespace
	}
	if p.PodSelector != nil {
		ok = verif_And(ok, c11selMatches(p.PodSelector.MatchLabels, ns, peer.sameNS, peer.podIngress))
	}
	return ok
}

func c11portMatches(ports []netv1.NetworkPolicyPort, port int32, udp bool) bool {
	if len(ports) == 0 {
		return true
	}
	any := false
	for _, pp := range ports {
		m := true
		if pp.Protocol != nil {
			m = verif_And(m, (*pp.Protocol == corev1.ProtocolUDP) == udp)
		} else {
			m = verif_And(m, !udp)
		}
		if pp.Port != nil {
			m = verif_And(m, int32(pp.Port.IntValue()) == port)
		}
		any = verif_Or(any, m)
	}
	return any
}

func c11cidr(s string) (uint32, uint32) {
	parts := strings.Split(s, "/")
	oct := strings.Split(parts[0], ".")
	var ip uint32
	for _, o := range oct {
		v, _ := strconv.Atoi(o)
		ip = ip<<8 | uint32(v)
	}
	bits, _ := strconv.Atoi(parts[1])
	var mask uint32
	if bits > 0 {
		mask = ^uint32(0) << uint(32-bits)
	}
	return ip & mask, mask
}

func c11inCIDR(addr uint32, cidr string) bool {
	base, mask := c11cidr(cidr)
	return addr&mask == base
}

func c11expose(tag string) manifest.ServiceExpose {
	return manifest.ServiceExpose{Port: verif_U16(tag + "-port"), ExternalPort: verif_U16(tag + "-external-port"), Global: verif_Bool(tag + "-global"),
		Proto: []manifest.ServiceProtocol{manifest.TCP, manifest.UDP}[verif_Choice(tag+"-proto", 2)]}
}

func c11netpol(nsvc int) { c11netpolVia(nsvc, false) }

// c11netpolVia evaluates either the policies the builder creates, or (viaClient) the policies that
// are stored in the cluster after the real applyNetPolicies ran twice for the same lease: first for
// an earlier version of the manifest with other exposes, then for the current one.
func c11netpolVia(nsvc int, viaClient bool) {
	lid := c11lid()
	ns := lidNS(lid)
	names := []string{"web", "api"}
	var svcs []manifest.Service
	for i := 0; i < nsvc; i++ {
		svcs = append(svcs, manifest.Service{Name: names[i], Image: "img", Count: 1, Expose: []manifest.ServiceExpose{c11expose(names[i])}})
	}
	group := &manifest.Group{Name: "g", Services: svcs}
	var pols []*netv1.NetworkPolicy
	var err error
	if viaClient {
		kc := c11newKC(ns)
		var old []manifest.Service
		for i := 0; i < nsvc; i++ {
			old = append(old, manifest.Service{Name: names[i], Image: "img", Count: 1, Expose: []manifest.ServiceExpose{c11expose("old-" + names[i])}})
		}
		settings := Settings{NetworkPoliciesEnabled: true}
		err = applyNetPolicies(context.Background(), kc, newNetPolBuilder(settings, lid, &manifest.Group{Name: "g", Services: old}))
		verif_Assert(err == nil, "C11 network policies are generated when enabled")
		err = applyNetPolicies(context.Background(), kc, newNetPolBuilder(settings, lid, group))
		pols = kc.np.list()
		verif_Reach("applied-twice")
	} else {
		pols, err = newNetPolBuilder(Settings{NetworkPoliciesEnabled: true}, lid, group).create()
	}
	verif_Assert(err == nil && len(pols) >= 1, "C11 network policies are generated when enabled")
	if err != nil {
		return
	}
	// the pod under attack belongs to service t
	t := verif_Choice("target-service", nsvc)
	ex := svcs[t].Expose[0]
	extPort := int32(ex.ExternalPort)
	if ex.ExternalPort == 0 {
		extPort = int32(ex.Port)
	}
	exposedDirectly := verif_And(ex.Global, verif_Not(verif_And(ex.Proto == manifest.TCP, extPort == 80)))

	peer := c11peer{sameNS: verif_Bool("peer-same-namespace"), nsIngress: verif_Bool("peer-namespace-is-ingress"), podIngress: verif_Bool("peer-pod-is-ingress")}
	verif_Assume(verif_Not(verif_And(peer.sameNS, peer.nsIngress))) // the lease namespace is not the ingress controller's
	dport, dudp := int32(verif_U16("dest-port")), verif_Bool("dest-udp")
	ingressAllowed := false
	egressAllowed := false
	daddr := verif_BV32("dest-address")
	destSameNS := verif_Bool("dest-same-namespace")
	eport, eudp := int32(verif_U16("egress-port")), verif_Bool("egress-udp")
	isolatedIn, isolatedOut := false, false
	for _, pol := range pols {
		verif_Assert(pol.Namespace == ns, "C11 every network policy lives in the lease's namespace")
		// does the policy select the target pod?
		selects := true
		for k, v := range pol.Spec.PodSelector.MatchLabels {
			if k == akashManifestServiceLabelName {
				selects = selects && v == names[t]
			} else {
				selects = false
			}
		}
		if !selects {
			continue
		}
		for _, pt := range pol.Spec.PolicyTypes {
			if pt == netv1.PolicyTypeIngress {
				isolatedIn = true
			}
			if pt == netv1.PolicyTypeEgress {
				isolatedOut = true
			}
		}
		for _, rule := range pol.Spec.Ingress {
			from := len(rule.From) == 0
			for _, p := range rule.From {
				from = verif_Or(from, c11peerMatches(p, ns, peer))
			}
			ingressAllowed = verif_Or(ingressAllowed, verif_And(from, c11portMatches(rule.Ports, dport, dudp)))
		}
		for _, rule := range pol.Spec.Egress {
			to := len(rule.To) == 0
			for _, p := range rule.To {
				if p.IPBlock != nil {
					in := c11inCIDR(daddr, p.IPBlock.CIDR)
					for _, ex := range p.IPBlock.Except {
						in = verif_And(in, !c11inCIDR(daddr, ex))
					}
					to = verif_Or(to, verif_And(in, !destSameNS))
				} else {
					to = verif_Or(to, c11peerMatches(p, ns, c11peer{sameNS: destSameNS}))
				}
			}
			egressAllowed = verif_Or(egressAllowed, verif_And(to, c11portMatches(rule.Ports, eport, eudp)))
		}
	}
	verif_Assert(isolatedIn && isolatedOut, "C11 pods of the lease are isolated for ingress and egress")
	fromOutside := verif_Not(peer.sameNS)
	fromController := verif_And(peer.nsIngress, peer.podIngress)
	verif_Assert(verif_Implies(verif_And(ingressAllowed, fromOutside), verif_Or(fromController, verif_And(exposedDirectly, dport == extPort, dudp == (ex.Proto == manifest.UDP)))),
		"C11 ingress from outside the namespace is admitted only from the ingress controller or to globally exposed ports")
	private := verif_Or(c11inCIDR(daddr, "10.0.0.0/8"), c11inCIDR(daddr, "172.16.0.0/12"), c11inCIDR(daddr, "192.168.0.0/16"))
	verif_Assert(verif_Implies(verif_And(egressAllowed, !destSameNS, private), verif_And(eudp, eport == 53)),
		"C11 no egress to private address ranges outside the namespace except DNS")
	verif_Reach("netpol")
}

func Harness_C11_netpol()   { c11netpol(1) }
func Harness_C11_netpol_2() { c11netpol(2) }

// the policies in force after a manifest update of the same lease
func Harness_C11_netpol_applied() { c11netpolVia(1, true) }

// network policies disabled: nothing generated (the statement is conditional on the flag)
func Harness_C11_netpol_off() {
	pols, err := newNetPolBuilder(Settings{NetworkPoliciesEnabled: false}, c11lid(), &manifest.Group{Name: "g"}).create()
	verif_Assert(err == nil && len(pols) == 0, "C11 no network policy objects when the feature is off")
	verif_Reach("netpol-off")
}

// (c) namespace / service objects
func Harness_C11_objects() {
	lid := c11lid()
	ns := lidNS(lid)
	svc := &manifest.Service{Name: "web", Image: "img", Count: 1,
		Expose: []manifest.ServiceExpose{{Port: verif_U16("port"), ExternalPort: verif_U16("external-port"), Global: verif_Bool("global"),
			Proto: []manifest.ServiceProtocol{manifest.TCP, manifest.UDP}[verif_Choice("proto", 2)]}}}
	group := &manifest.Group{Name: "g", Services: []manifest.Service{*svc}}
	nsobj, err := newNSBuilder(Settings{}, lid, group).create()
	verif_Assert(err == nil && nsobj.Name == ns && nsobj.Labels[akashNetworkNamespace] == ns, "C11 the namespace object is the lease's namespace")
	for _, np := range []bool{false, true} {
		sb := newServiceBuilder(log.NewNopLogger(), Settings{}, lid, group, svc, np)
		if !sb.any() {
			continue
		}
		s, err := sb.create()
		if err != nil {
			continue
		}
		verif_Assert(s.Labels[akashNetworkNamespace] == ns && s.Spec.Selector[akashNetworkNamespace] == ns, "C11 services select only pods of the lease's namespace")
		verif_Reach("service")
	}
}
