package kube

// A minimal Kubernetes clientset for the apply* functions: typed fakes that keep the objects the
// real code creates / updates, per kind, and check the namespace every call is addressed to.
// Only the calls apply.go makes are implemented; any other call is a nil-interface panic and ends
// the path as a violation.

import (
	"context"

	netv1 "k8s.io/api/networking/v1"
	kerrors "k8s.io/apimachinery/pkg/api/errors"
	metav1 "k8s.io/apimachinery/pkg/apis/meta/v1"
	"k8s.io/apimachinery/pkg/runtime/schema"
	"k8s.io/client-go/kubernetes"
	netclient "k8s.io/client-go/kubernetes/typed/networking/v1"
)

type c11kc struct {
	kubernetes.Interface
	ns string // the lease's namespace: every namespaced call must be addressed to it
	np *c11npStore
}

func c11newKC(ns string) *c11kc { return &c11kc{ns: ns, np: &c11npStore{}} }

func (k *c11kc) NetworkingV1() netclient.NetworkingV1Interface { return c11netV1{k: k} }

type c11netV1 struct {
	netclient.NetworkingV1Interface
	k *c11kc
}

func (n c11netV1) NetworkPolicies(namespace string) netclient.NetworkPolicyInterface {
	verif_Assert(namespace == n.k.ns, "C11 every Kubernetes call for a lease is addressed to the lease's namespace")
	return c11np{ns: namespace, st: n.k.np}
}

type c11npStore struct{ objs []*netv1.NetworkPolicy }

func (s *c11npStore) list() []*netv1.NetworkPolicy { return s.objs }

type c11np struct {
	netclient.NetworkPolicyInterface
	ns string
	st *c11npStore
}

func (c c11np) Get(_ context.Context, name string, _ metav1.GetOptions) (*netv1.NetworkPolicy, error) {
	for _, o := range c.st.objs {
		if o.Name == name && o.Namespace == c.ns {
			return o.DeepCopy(), nil
		}
	}
	return nil, kerrors.NewNotFound(schema.GroupResource{Group: "networking.k8s.io", Resource: "networkpolicies"}, name)
}

func (c c11np) Create(_ context.Context, obj *netv1.NetworkPolicy, _ metav1.CreateOptions) (*netv1.NetworkPolicy, error) {
	verif_Assert(obj.Namespace == c.ns, "C11 every Kubernetes call for a lease is addressed to the lease's namespace")
	c.st.objs = append(c.st.objs, obj)
	return obj, nil
}

func (c c11np) Update(_ context.Context, obj *netv1.NetworkPolicy, _ metav1.UpdateOptions) (*netv1.NetworkPolicy, error) {
	verif_Assert(obj.Namespace == c.ns, "C11 every Kubernetes call for a lease is addressed to the lease's namespace")
	for i, o := range c.st.objs {
		if o.Name == obj.Name && o.Namespace == c.ns {
			c.st.objs[i] = obj
			return obj, nil
		}
	}
	return nil, kerrors.NewNotFound(schema.GroupResource{Group: "networking.k8s.io", Resource: "networkpolicies"}, obj.Name)
}

func (c c11np) List(_ context.Context, opts metav1.ListOptions) (*netv1.NetworkPolicyList, error) {
	out := &netv1.NetworkPolicyList{}
	for _, o := range c.st.objs {
		if o.Namespace != c.ns {
			continue
		}
		if opts.LabelSelector == akashManagedLabelName+"=true" && o.Labels[akashManagedLabelName] != "true" {
			continue
		}
		out.Items = append(out.Items, *o.DeepCopy())
	}
	return out, nil
}

func (c c11np) Delete(_ context.Context, name string, _ metav1.DeleteOptions) error {
	for i, o := range c.st.objs {
		if o.Name == name && o.Namespace == c.ns {
			c.st.objs = append(c.st.objs[:i:i], c.st.objs[i+1:]...)
			return nil
		}
	}
	return kerrors.NewNotFound(schema.GroupResource{Group: "networking.k8s.io", Resource: "networkpolicies"}, name)
}
