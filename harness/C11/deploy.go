package kube

// C11 (c), whole Deploy / TeardownLease: the real (*client).Deploy runs against typed fakes of the
// Kubernetes and Akash clientsets that remember where every call was addressed.  Every namespaced
// object of the lease (deployments, services, ingresses, network policies) is read, created,
// updated, listed and deleted in the lease's namespace and carries that namespace; the namespace
// object itself is the lease's; the manifest record goes to the provider's own namespace; teardown
// deletes exactly the lease's namespace.

import (
	"context"

	"github.com/tendermint/tendermint/libs/log"
	appsv1 "k8s.io/api/apps/v1"
	corev1 "k8s.io/api/core/v1"
	netv1 "k8s.io/api/networking/v1"
	kerrors "k8s.io/apimachinery/pkg/api/errors"
	metav1 "k8s.io/apimachinery/pkg/apis/meta/v1"
	"k8s.io/apimachinery/pkg/runtime/schema"
	"k8s.io/client-go/kubernetes"
	appsclient "k8s.io/client-go/kubernetes/typed/apps/v1"
	coreclient "k8s.io/client-go/kubernetes/typed/core/v1"
	netclient "k8s.io/client-go/kubernetes/typed/networking/v1"

	"github.com/ovrclk/akash/manifest"
	akashv1 "github.com/ovrclk/akash/pkg/apis/akash.network/v1"
	akashclient "github.com/ovrclk/akash/pkg/client/clientset/versioned"
	akashtyped "github.com/ovrclk/akash/pkg/client/clientset/versioned/typed/akash.network/v1"
	atypes "github.com/ovrclk/akash/types"
)

const c11dLabel = "C11 every Kubernetes call for a lease is addressed to the lease's namespace"

type c11dState struct {
	leaseNS, provNS string
	calls           int
	nsObjects       []string // namespace objects created / updated / deleted
	deleted         []string
	np              *c11npStore
	have            map[string]bool // kind/name of objects that exist
	policies        bool            // network policies are enabled in the provider's settings
	deploys         map[string]*appsv1.Deployment
	services        map[string]*corev1.Service
	ingresses       map[string]*netv1.Ingress
}

func (s *c11dState) addressed(ns string) {
	s.calls++
	verif_Assert(ns == s.leaseNS, c11dLabel)
}

func (s *c11dState) object(kind, ns, name string) {
	// an object without a namespace of its own is placed in the namespace the call is addressed to
	verif_Assert(ns == "" || ns == s.leaseNS, "C11 every object generated for a lease lives in the lease's namespace")
	if s.policies {
		// a deploy may fail at any later call: a workload written before the namespace's policies
		// would then run with no network policy at all
		verif_Assert(len(s.np.list()) > 0, "C11 with network policies enabled no workload is written to a namespace whose policies are not in place yet")
	}
	s.have[kind+"/"+name] = true
}

func c11notFound(res, name string) error {
	return kerrors.NewNotFound(schema.GroupResource{Resource: res}, name)
}

// ---- kubernetes.Interface ----

type c11dKC struct {
	kubernetes.Interface
	s *c11dState
}

func (k c11dKC) CoreV1() coreclient.CoreV1Interface             { return c11dCore{s: k.s} }
func (k c11dKC) AppsV1() appsclient.AppsV1Interface             { return c11dApps{s: k.s} }
func (k c11dKC) NetworkingV1() netclient.NetworkingV1Interface { return c11dNet{s: k.s} }

type c11dCore struct {
	coreclient.CoreV1Interface
	s *c11dState
}

func (c c11dCore) Namespaces() coreclient.NamespaceInterface { return c11dNamespaces{s: c.s} }
func (c c11dCore) Services(ns string) coreclient.ServiceInterface {
	c.s.addressed(ns)
	return c11dServices{s: c.s, ns: ns}
}

type c11dNamespaces struct {
	coreclient.NamespaceInterface
	s *c11dState
}

func (n c11dNamespaces) Get(_ context.Context, name string, _ metav1.GetOptions) (*corev1.Namespace, error) {
	verif_Assert(name == n.s.leaseNS, c11dLabel)
	if n.s.have["ns/"+name] {
		return &corev1.Namespace{ObjectMeta: metav1.ObjectMeta{Name: name}}, nil
	}
	return nil, c11notFound("namespaces", name)
}
func (n c11dNamespaces) Create(_ context.Context, o *corev1.Namespace, _ metav1.CreateOptions) (*corev1.Namespace, error) {
	verif_Assert(o.Name == n.s.leaseNS, c11dLabel)
	n.s.have["ns/"+o.Name] = true
	n.s.nsObjects = append(n.s.nsObjects, o.Name)
	return o, nil
}
func (n c11dNamespaces) Update(_ context.Context, o *corev1.Namespace, _ metav1.UpdateOptions) (*corev1.Namespace, error) {
	verif_Assert(o.Name == n.s.leaseNS, c11dLabel)
	n.s.nsObjects = append(n.s.nsObjects, o.Name)
	return o, nil
}
func (n c11dNamespaces) Delete(_ context.Context, name string, _ metav1.DeleteOptions) error {
	n.s.deleted = append(n.s.deleted, name)
	return nil
}

type c11dServices struct {
	coreclient.ServiceInterface
	s  *c11dState
	ns string
}

func (c c11dServices) Get(_ context.Context, name string, _ metav1.GetOptions) (*corev1.Service, error) {
	if o, ok := c.s.services[name]; ok {
		return o.DeepCopy(), nil
	}
	return nil, c11notFound("services", name)
}
func (c c11dServices) Create(_ context.Context, o *corev1.Service, _ metav1.CreateOptions) (*corev1.Service, error) {
	c.s.object("svc", o.Namespace, o.Name)
	c.s.services[o.Name] = o
	return o, nil
}
func (c c11dServices) Update(_ context.Context, o *corev1.Service, _ metav1.UpdateOptions) (*corev1.Service, error) {
	c.s.object("svc", o.Namespace, o.Name)
	c.s.services[o.Name] = o
	return o, nil
}
func (c c11dServices) List(context.Context, metav1.ListOptions) (*corev1.ServiceList, error) {
	return &corev1.ServiceList{}, nil
}
func (c c11dServices) Delete(context.Context, string, metav1.DeleteOptions) error { return nil }

type c11dApps struct {
	appsclient.AppsV1Interface
	s *c11dState
}

func (a c11dApps) Deployments(ns string) appsclient.DeploymentInterface {
	a.s.addressed(ns)
	return c11dDeployments{s: a.s, ns: ns}
}

type c11dDeployments struct {
	appsclient.DeploymentInterface
	s  *c11dState
	ns string
}

func (c c11dDeployments) Get(_ context.Context, name string, _ metav1.GetOptions) (*appsv1.Deployment, error) {
	if o, ok := c.s.deploys[name]; ok {
		return o.DeepCopy(), nil
	}
	return nil, c11notFound("deployments", name)
}
func (c c11dDeployments) Create(_ context.Context, o *appsv1.Deployment, _ metav1.CreateOptions) (*appsv1.Deployment, error) {
	c.s.object("deploy", o.Namespace, o.Name)
	c.s.deploys[o.Name] = o
	return o, nil
}
func (c c11dDeployments) Update(_ context.Context, o *appsv1.Deployment, _ metav1.UpdateOptions) (*appsv1.Deployment, error) {
	c.s.object("deploy", o.Namespace, o.Name)
	c.s.deploys[o.Name] = o
	return o, nil
}
func (c c11dDeployments) DeleteCollection(context.Context, metav1.DeleteOptions, metav1.ListOptions) error {
	return nil
}

type c11dNet struct {
	netclient.NetworkingV1Interface
	s *c11dState
}

func (n c11dNet) NetworkPolicies(ns string) netclient.NetworkPolicyInterface {
	n.s.addressed(ns)
	return c11np{ns: ns, st: n.s.np}
}
func (n c11dNet) Ingresses(ns string) netclient.IngressInterface {
	n.s.addressed(ns)
	return c11dIngresses{s: n.s, ns: ns}
}

type c11dIngresses struct {
	netclient.IngressInterface
	s  *c11dState
	ns string
}

func (c c11dIngresses) Get(_ context.Context, name string, _ metav1.GetOptions) (*netv1.Ingress, error) {
	if o, ok := c.s.ingresses[name]; ok {
		return o.DeepCopy(), nil
	}
	return nil, c11notFound("ingresses", name)
}
func (c c11dIngresses) Create(_ context.Context, o *netv1.Ingress, _ metav1.CreateOptions) (*netv1.Ingress, error) {
	c.s.object("ing", o.Namespace, o.Name)
	c.s.ingresses[o.Name] = o
	return o, nil
}
func (c c11dIngresses) Update(_ context.Context, o *netv1.Ingress, _ metav1.UpdateOptions) (*netv1.Ingress, error) {
	c.s.object("ing", o.Namespace, o.Name)
	c.s.ingresses[o.Name] = o
	return o, nil
}
func (c c11dIngresses) DeleteCollection(context.Context, metav1.DeleteOptions, metav1.ListOptions) error {
	return nil
}

// ---- akash clientset (manifest records live in the provider's own namespace) ----

type c11dAC struct {
	akashclient.Interface
	s *c11dState
}

func (a c11dAC) AkashV1() akashtyped.AkashV1Interface { return c11dAkash{s: a.s} }

type c11dAkash struct {
	akashtyped.AkashV1Interface
	s *c11dState
}

func (a c11dAkash) Manifests(ns string) akashtyped.ManifestInterface {
	verif_Assert(ns == a.s.provNS, "C11 the manifest record is kept in the provider's own namespace")
	return c11dManifests{s: a.s}
}

type c11dManifests struct {
	akashtyped.ManifestInterface
	s *c11dState
}

func (m c11dManifests) Get(_ context.Context, name string, _ metav1.GetOptions) (*akashv1.Manifest, error) {
	return nil, c11notFound("manifests", name)
}
func (m c11dManifests) Create(_ context.Context, o *akashv1.Manifest, _ metav1.CreateOptions) (*akashv1.Manifest, error) {
	verif_Assert(o.Name == m.s.leaseNS, "C11 the manifest record is named after the lease's namespace")
	return o, nil
}

func Harness_C11_deploy() {
	lid := c11lid()
	ns := lidNS(lid)
	st := &c11dState{leaseNS: ns, provNS: "provider", np: &c11npStore{}, have: map[string]bool{},
		deploys: map[string]*appsv1.Deployment{}, services: map[string]*corev1.Service{}, ingresses: map[string]*netv1.Ingress{}}
	redeploy := verif_Choice("redeploy", 2) == 1 // deploy twice: the second run takes the update paths
	units := atypes.ResourceUnits{CPU: &atypes.CPU{Units: atypes.NewResourceValue(100)}, Memory: &atypes.Memory{Quantity: atypes.NewResourceValue(1 << 20)}, Storage: &atypes.Storage{Quantity: atypes.NewResourceValue(1 << 20)}}
	group := &manifest.Group{Name: "g", Services: []manifest.Service{{Name: "web", Image: "img", Count: 1, Resources: units, Expose: []manifest.ServiceExpose{
		{Port: 80, Proto: manifest.TCP, Global: true, Hosts: []string{"web.example.com"}},
		{Port: 8080, Proto: manifest.TCP, Global: true},
		{Port: 5432, Proto: manifest.TCP, Service: "db"},
	}}}}
	st.policies = verif_Choice("network-policies", 2) == 1
	c := &client{kc: c11dKC{s: st}, ac: c11dAC{s: st}, ns: st.provNS, settings: Settings{NetworkPoliciesEnabled: st.policies, DeploymentIngressStaticHosts: false}, log: log.NewNopLogger()}
	err := c.Deploy(context.Background(), lid, group)
	if redeploy && err == nil {
		err = c.Deploy(context.Background(), lid, group)
	}
	verif_Assert(err == nil, "C11 harness: the deploy goes through")
	verif_Reach("deployed")
	verif_Assert(st.have["deploy/web"] && st.have["svc/web"], "C11 harness: deployment and service objects are written")
	for _, n := range st.nsObjects {
		verif_Assert(n == ns, c11dLabel)
	}
	for _, p := range st.np.list() {
		verif_Assert(p.Namespace == ns, "C11 every network policy lives in the lease's namespace")
	}
	verif_Assert(c.TeardownLease(context.Background(), lid) == nil, "C11 harness: teardown goes through")
	verif_Assert(len(st.deleted) == 1 && st.deleted[0] == ns, "C11 teardown deletes exactly the lease's namespace")
}
