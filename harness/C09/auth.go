package utils

//verif:pkg provider/gateway/utils

// C09 (i): the VerifyPeerCertificate closure built by the real NewServerTLSConfig accepts a
// client certificate only if it is the currently valid certificate that the named account
// published on chain (same key), inside its validity window, usable for client authentication,
// presented alone.  Certificates are tokens carrying exactly the fields listed in the harness;
// x509.ParseCertificate / CertPool / Verify follow the contract in engine/intr_cert.go.
// Natively real certificates with real ECDSA keys are generated and the real crypto runs.

import (
	"context"

	sdk "github.com/cosmos/cosmos-sdk/types"
	"google.golang.org/grpc"

	ctypes "github.com/ovrclk/akash/x/cert/types"
)

type c09chain struct {
	present bool
	owner   string
	serial  sdk.Int
	state   ctypes.Certificate_State
	pem     []byte
}

type c09query struct {
	ctypes.QueryClient
	c *c09chain
}

func (q c09query) Certificates(ctx context.Context, in *ctypes.QueryCertificatesRequest, opts ...grpc.CallOption) (*ctypes.QueryCertificatesResponse, error) {
	resp := &ctypes.QueryCertificatesResponse{}
	c := q.c
	if !c.present || in.Filter.Owner != c.owner || in.Filter.Serial != c.serial.String() {
		return resp, nil
	}
	if in.Filter.State == "valid" && c.state != ctypes.CertificateValid {
		return resp, nil
	}
	resp.Certificates = append(resp.Certificates, ctypes.CertificateResponse{
		Certificate: ctypes.Certificate{State: c.state, Cert: c.pem, Pubkey: verif_PubPEM()},
		Serial:      c.serial.String(),
	})
	return resp, nil
}

func c09serial(label string) sdk.Int {
	s := verif_Int(label)
	verif_Assume(verif_And(s.GTE(sdk.OneInt()), s.LT(sdk.NewInt(1<<30))))
	return s
}

func Harness_C09_verify() {
	X := verif_Addr(0)
	S := c09serial("chain-serial")
	chain := &c09chain{present: verif_Choice("on-chain", 2) == 1, owner: X, serial: S, state: ctypes.CertificateValid}
	if verif_Choice("revoked", 2) == 1 {
		chain.state = ctypes.CertificateRevoked
	}
	// the genuine certificate: key 1, self-signed, published by X
	gvb, gvh := verif_Bool("genuine-valid-at-start"), verif_Bool("genuine-valid-at-handshake")
	genuine := verif_CertDERT(X, X, S, 1, 1, gvb, gvh, true)
	chain.pem = verif_DERToPEM(genuine)

	// the presented certificate: every field arbitrary
	cn := []string{X, verif_Addr(1), "not-an-address"}[verif_Choice("cn", 3)]
	issuer := cn
	if verif_Choice("issuer-differs", 2) == 1 {
		issuer = verif_Addr(2)
	}
	sameSerial := verif_Choice("same-serial", 2) == 1
	serial := S
	if !sameSerial {
		serial = c09serial("presented-serial")
		verif_Assume(verif_Not(serial.Equal(S)))
	}
	key := 1 + verif_Choice("key", 2)       // 1 = the key of the on-chain certificate, 2 = another key
	signer := 1 + verif_Choice("signer", 2) // who signed the presented certificate
	validStart, validNow, clientAuth := verif_Bool("valid-at-start"), verif_Bool("valid-now"), verif_Bool("client-auth")
	presented := verif_CertDERT(cn, issuer, serial, key, signer, validStart, validNow, clientAuth)
	isGenuine := verif_Choice("present-genuine", 2) == 1
	if isGenuine {
		presented = genuine // the client holds the very certificate that is on chain
	}
	nchain := verif_Choice("chain-length", 3)
	var raw [][]byte
	for i := 0; i < nchain; i++ {
		raw = append(raw, presented)
	}

	verif_SetEpoch(1) // the gateway starts
	cfg, err := NewServerTLSConfig(context.Background(), nil, c09query{c: chain})
	verif_Assert(err == nil && cfg != nil && cfg.VerifyPeerCertificate != nil, "C09 the gateway installs a peer-certificate verifier")
	if err != nil || cfg == nil {
		return
	}
	verif_SetEpoch(2) // later: a client connects
	verr := cfg.VerifyPeerCertificate(raw, nil)
	if nchain == 0 {
		verif_Reach("no-certificate") // unauthenticated connection: request middleware rejects it later
		return
	}
	if verr != nil {
		verif_Reach("rejected")
		return
	}
	verif_Reach("accepted")
	verif_Assert(nchain == 1, "C09 only a single certificate is accepted, never a chain")
	if isGenuine {
		verif_Reach("genuine-accepted")
		verif_Assert(chain.present && chain.state == ctypes.CertificateValid, "C09 a revoked certificate is rejected")
		verif_Assert(gvh, "C09 an expired, not-yet-valid or wrong-usage certificate is rejected")
		return
	}
	verif_Assert(cn == X && chain.present, "C09 a client is treated as account X only with a certificate X published on chain")
	verif_Assert(chain.state == ctypes.CertificateValid, "C09 a revoked certificate is rejected")
	verif_Assert(sameSerial, "C09 the accepted certificate has the serial registered on chain")
	verif_Assert(key == 1, "C09 a self-made certificate that copies name and serial is rejected (the client must hold the on-chain certificate's key)")
	verif_Assert(verif_And(validNow, clientAuth), "C09 an expired, not-yet-valid or wrong-usage certificate is rejected")
	if key == 2 && signer == 2 && sameSerial {
		verif_Reach("forged-accepted")
	}
}
