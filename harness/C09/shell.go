package rest

// C09 (ii), overlapping requests: the lease-shell endpoint asks the manifest service whether the
// deployment is active and only later hands the lease id to the cluster.  Here a second tenant's
// shell request runs to completion while the first tenant's request is inside that first call
// (the recording manifest client makes the nested request itself - one specific interleaving of
// two concurrent requests, executed in a single goroutine).  Each command must still be executed
// in the lease of the tenant whose certificate authenticated the request that carried it.

import (
	"context"
	"crypto/tls"
	"crypto/x509"
	"crypto/x509/pkix"
	"encoding/json"
	"errors"
	"io"
	"net/http"
	"net/http/httptest"
	"net/url"
	"strconv"
	"strings"
	"time"

	sdk "github.com/cosmos/cosmos-sdk/types"
	"github.com/gorilla/mux"
	"github.com/gorilla/websocket"
	"k8s.io/client-go/tools/remotecommand"

	"github.com/ovrclk/akash/manifest"
	"github.com/ovrclk/akash/provider"
	"github.com/ovrclk/akash/provider/cluster"
	ctypes "github.com/ovrclk/akash/provider/cluster/types"
	pmanifest "github.com/ovrclk/akash/provider/manifest"
	dtypes "github.com/ovrclk/akash/x/deployment/types"
	mtypes "github.com/ovrclk/akash/x/market/types"
)

type c09shExec struct {
	id   mtypes.LeaseID
	want string // the account that authenticated the request being served when Exec was called
}

type c09shState struct {
	stack  []string // authenticated accounts of the requests being served, innermost last
	execs  []c09shExec
	nested bool
	inner  func() // runs the second tenant's request
}

type c09shCluster struct {
	cluster.Client
	s *c09shState
}

func (c c09shCluster) Exec(_ context.Context, id mtypes.LeaseID, _ string, _ uint, _ []string, _ io.Reader, _ io.Writer, _ io.Writer, _ bool, _ remotecommand.TerminalSizeQueue) (ctypes.ExecResult, error) {
	want := ""
	if len(c.s.stack) > 0 {
		want = c.s.stack[len(c.s.stack)-1]
	}
	c.s.execs = append(c.s.execs, c09shExec{id: id, want: want})
	return nil, errors.New("no exec")
}

type c09shManifest struct{ s *c09shState }

func (m c09shManifest) Submit(context.Context, dtypes.DeploymentID, manifest.Manifest) error {
	return nil
}
func (m c09shManifest) IsActive(context.Context, dtypes.DeploymentID) (bool, error) {
	if !m.s.nested && m.s.inner != nil {
		m.s.nested = true
		m.s.inner() // the other tenant's request overlaps with this one here
	}
	return true, nil
}

type c09shClient struct {
	provider.Client
	s *c09shState
}

func (c c09shClient) Manifest() pmanifest.Client { return c09shManifest{c.s} }
func (c c09shClient) Cluster() cluster.Client    { return c09shCluster{s: c.s} }

const c09shQuery = "cmd0=ls&tty=0&stdin=0&service=web&podIndex=0"

func Harness_C09_shell_overlap() {
	A, P, B := verif_Addr(0), verif_Addr(1), verif_Addr(2)
	paddr, err := sdk.AccAddressFromBech32(P)
	if err != nil {
		panic(err)
	}
	st := &c09shState{}
	dA, dB := verif_U64("dseq-a"), verif_U64("dseq-b")
	verif_Assume(dA != dB && dA != 0 && dB != 0)
	tlsFor := func(cn string) *tls.ConnectionState {
		return &tls.ConnectionState{PeerCertificates: []*x509.Certificate{{Subject: pkix.Name{CommonName: cn}}}}
	}
	check := func() {
		verif_Reach("both-served")
		verif_Assert(len(st.execs) == 2, "C09 harness: both shell commands reach the cluster")
		for _, e := range st.execs {
			verif_Assert(e.id.Owner == e.want, "C09 a lease-scoped request is executed only against leases of the authenticated account, whatever the URL contains")
			verif_Assert(e.id.Provider == P, "C09 a lease-scoped request is executed only against leases at this provider")
			wantD := dA
			if e.want == B {
				wantD = dB
			}
			verif_Assert(e.id.DSeq == wantD, "C09 a lease-scoped request is executed only against leases of the authenticated account, whatever the URL contains")
		}
	}
	if verif_Symbolic() {
		c09installMux()
		verif_StubFunc("(*github.com/gorilla/websocket.Upgrader).Upgrade", func(_ *websocket.Upgrader, _ http.ResponseWriter, _ *http.Request, _ http.Header) (*websocket.Conn, error) {
			return &websocket.Conn{}, nil
		})
		verif_StubFunc("(*github.com/gorilla/websocket.Conn).WriteMessage", func(*websocket.Conn, int, []byte) error { return nil })
		verif_StubFunc("(*github.com/gorilla/websocket.Conn).Close", func(*websocket.Conn) error { return nil })
		verif_StubFunc("(*encoding/json.Encoder).Encode", func(*json.Encoder, interface{}) error { return nil })
		_ = newRouter(c09log{}, paddr, c09shClient{s: st})
		var rt *c09route
		for _, r := range c09routes {
			if strings.HasSuffix(r.tpl, "/shell") {
				rt = r
			}
		}
		if rt == nil {
			verif_Assert(false, "C09 harness: the router exposes the lease shell route")
			return
		}
		var chain []mux.MiddlewareFunc
		var collect func(n *c09node)
		collect = func(n *c09node) {
			if n == nil {
				return
			}
			collect(n.parent)
			chain = append(chain, n.mws...)
		}
		collect(rt.node)
		var h http.Handler = http.HandlerFunc(rt.h)
		for i := len(chain) - 1; i >= 0; i-- {
			h = chain[i](h)
		}
		serve := func(cn string, dseq uint64) {
			saved := c09curVars
			c09curVars = map[string]string{"dseq": strconv.FormatUint(dseq, 10), "gseq": "1", "oseq": "1"}
			st.stack = append(st.stack, cn)
			req := &http.Request{Method: "GET", TLS: tlsFor(cn), Body: c09body{}, URL: &url.URL{Path: rt.tpl, RawQuery: c09shQuery}}
			func() {
				defer func() { _ = recover() }()
				h.ServeHTTP(c09writer{}, req)
			}()
			st.stack = st.stack[:len(st.stack)-1]
			c09curVars = saved
		}
		st.inner = func() { serve(B, dB) }
		serve(A, dA)
		check()
		return
	}
	// native: real mux, real websocket upgrade; the connection state is injected per request
	router := newRouter(c09log{}, paddr, c09shClient{s: st})
	bDone := make(chan struct{})
	srv := httptest.NewServer(http.HandlerFunc(func(w http.ResponseWriter, r *http.Request) {
		cn := A
		if r.URL.Query().Get("who") == "b" {
			cn = B
		}
		r.TLS = tlsFor(cn)
		st.stack = append(st.stack, cn)
		router.ServeHTTP(w, r)
		st.stack = st.stack[:len(st.stack)-1]
		if cn == B {
			close(bDone)
		}
	}))
	defer srv.Close()
	dial := func(who string, dseq uint64) {
		u := "ws" + strings.TrimPrefix(srv.URL, "http") + "/lease/" + strconv.FormatUint(dseq, 10) + "/1/1/shell?" + c09shQuery + "&who=" + who
		ws, resp, err := websocket.DefaultDialer.Dial(u, nil)
		if err == nil {
			for {
				if _, _, err := ws.ReadMessage(); err != nil {
					break
				}
			}
			_ = ws.Close()
		}
		if resp != nil && resp.Body != nil {
			_ = resp.Body.Close()
		}
	}
	st.inner = func() {
		dial("b", dB)
		select { // the second tenant's request has been served completely
		case <-bDone:
		case <-time.After(3 * time.Second):
		}
	}
	dial("a", dA)
	check()
}
