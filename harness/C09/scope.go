package rest

//verif:pkg provider/gateway/rest

// C09 (ii): every lease- or deployment-scoped request is executed only against leases of the
// authenticated account at this provider, whatever the URL contains.
//
// The real newRouter builds the routing tree; every scoped route of that tree is then driven with
// a request carrying the TLS-verified peer certificate of account A (or none), arbitrary path
// variables and adversarial query parameters, through exactly the middlewares the router
// registered for it and into the real terminal handler.  The lease / deployment ids that reach the
// cluster and manifest clients are checked.
//
// Engine: gorilla/mux is replaced by a recording model (verif_StubFunc): a request matching a
// route runs the middlewares registered with Use on every router from the root to the route's
// router, in registration order, then the route's handler; mux.Vars returns the variables named in
// the route's template.  gorilla/context runs for real.  Natively the real mux serves real HTTP /
// websocket requests through an httptest server (the TLS connection state is injected, since part
// (i) covers the handshake).

import (
	"bytes"
	"context"
	"crypto/tls"
	"crypto/x509"
	"crypto/x509/pkix"
	"encoding/json"
	"errors"
	"io"
	"math/big"
	"net/http"
	"net/http/httptest"
	"net/url"
	"strconv"
	"strings"

	sdk "github.com/cosmos/cosmos-sdk/types"
	"github.com/gorilla/mux"
	"github.com/gorilla/websocket"
	"github.com/tendermint/tendermint/libs/log"
	"k8s.io/client-go/tools/remotecommand"

	"github.com/ovrclk/akash/manifest"
	"github.com/ovrclk/akash/provider"
	"github.com/ovrclk/akash/provider/cluster"
	ctypes "github.com/ovrclk/akash/provider/cluster/types"
	pmanifest "github.com/ovrclk/akash/provider/manifest"
	dtypes "github.com/ovrclk/akash/x/deployment/types"
	mtypes "github.com/ovrclk/akash/x/market/types"
)

// ---- what the backends saw ----

type c09seen struct {
	leases      []mtypes.LeaseID
	deployments []dtypes.DeploymentID
	active      bool
}

type c09cluster struct {
	cluster.Client
	s *c09seen
}

func (c c09cluster) LeaseStatus(_ context.Context, id mtypes.LeaseID) (*ctypes.LeaseStatus, error) {
	c.s.leases = append(c.s.leases, id)
	return nil, nil
}
func (c c09cluster) ServiceStatus(_ context.Context, id mtypes.LeaseID, _ string) (*ctypes.ServiceStatus, error) {
	c.s.leases = append(c.s.leases, id)
	return nil, nil
}
func (c c09cluster) LeaseEvents(_ context.Context, id mtypes.LeaseID, _ string, _ bool) (ctypes.EventsWatcher, error) {
	c.s.leases = append(c.s.leases, id)
	return nil, errors.New("no events")
}
func (c c09cluster) LeaseLogs(_ context.Context, id mtypes.LeaseID, _ string, _ bool, _ *int64) ([]*ctypes.ServiceLog, error) {
	c.s.leases = append(c.s.leases, id)
	return nil, errors.New("no logs")
}
func (c c09cluster) Exec(_ context.Context, id mtypes.LeaseID, _ string, _ uint, _ []string, _ io.Reader, _ io.Writer, _ io.Writer, _ bool, _ remotecommand.TerminalSizeQueue) (ctypes.ExecResult, error) {
	c.s.leases = append(c.s.leases, id)
	return nil, errors.New("no exec")
}

type c09manifest struct{ s *c09seen }

func (m c09manifest) Submit(_ context.Context, id dtypes.DeploymentID, _ manifest.Manifest) error {
	m.s.deployments = append(m.s.deployments, id)
	return nil
}
func (m c09manifest) IsActive(_ context.Context, id dtypes.DeploymentID) (bool, error) {
	m.s.deployments = append(m.s.deployments, id)
	return m.s.active, nil
}

type c09client struct {
	provider.Client
	s *c09seen
}

func (c c09client) Manifest() pmanifest.Client { return c09manifest{c.s} }
func (c c09client) Cluster() cluster.Client    { return c09cluster{s: c.s} }

type c09log struct{}

func (c09log) Debug(string, ...interface{})     {}
func (c09log) Info(string, ...interface{})      {}
func (c09log) Error(string, ...interface{})     {}
func (l c09log) With(...interface{}) log.Logger { return l }

// ---- the recording model of gorilla/mux (engine only) ----

type c09node struct {
	r      *mux.Router
	parent *c09node
	prefix string
	mws    []mux.MiddlewareFunc
}

type c09route struct {
	tpl  string
	node *c09node
	h    func(http.ResponseWriter, *http.Request)
}

type c09pending struct {
	rt   *mux.Route
	node *c09node
	tpl  string
}

var (
	c09nodes   []*c09node
	c09routes  []*c09route
	c09prefix  []*c09pending
	c09curVars map[string]string
	c09status  []int
)

func c09find(r *mux.Router) *c09node {
	for _, n := range c09nodes {
		if n.r == r {
			return n
		}
	}
	panic("router not created through mux.NewRouter / Subrouter")
}

func c09fullPrefix(n *c09node) string {
	if n == nil {
		return ""
	}
	return c09fullPrefix(n.parent) + n.prefix
}

func c09installMux() {
	verif_StubFunc("github.com/gorilla/mux.NewRouter", func() *mux.Router {
		r := &mux.Router{}
		c09nodes = append(c09nodes, &c09node{r: r})
		return r
	})
	verif_StubFunc("(*github.com/gorilla/mux.Router).Use", func(r *mux.Router, mws ...mux.MiddlewareFunc) {
		n := c09find(r)
		n.mws = append(n.mws, mws...)
	})
	verif_StubFunc("(*github.com/gorilla/mux.Router).PathPrefix", func(r *mux.Router, tpl string) *mux.Route {
		rt := &mux.Route{}
		c09prefix = append(c09prefix, &c09pending{rt: rt, node: c09find(r), tpl: tpl})
		return rt
	})
	verif_StubFunc("(*github.com/gorilla/mux.Route).Subrouter", func(rt *mux.Route) *mux.Router {
		for _, p := range c09prefix {
			if p.rt == rt {
				r := &mux.Router{}
				c09nodes = append(c09nodes, &c09node{r: r, parent: p.node, prefix: p.tpl})
				return r
			}
		}
		panic("Subrouter of a route not created by PathPrefix")
	})
	verif_StubFunc("(*github.com/gorilla/mux.Router).HandleFunc", func(r *mux.Router, path string, f func(http.ResponseWriter, *http.Request)) *mux.Route {
		n := c09find(r)
		c09routes = append(c09routes, &c09route{tpl: c09fullPrefix(n) + path, node: n, h: f})
		return &mux.Route{}
	})
	verif_StubFunc("(*github.com/gorilla/mux.Route).Methods", func(rt *mux.Route, _ ...string) *mux.Route { return rt })
	verif_StubFunc("github.com/gorilla/mux.Vars", func(*http.Request) map[string]string { return c09curVars })
	// response side effects and payload codecs are not part of the property
	verif_StubFunc("net/http.Error", func(_ http.ResponseWriter, _ string, code int) { c09status = append(c09status, code) })
	verif_StubFunc("writeJSON", func(log.Logger, http.ResponseWriter, interface{}) { c09status = append(c09status, 200) })
	verif_StubFunc("encoding/json.NewDecoder", func(io.Reader) *json.Decoder { return &json.Decoder{} })
	verif_StubFunc("(*encoding/json.Decoder).Decode", func(*json.Decoder, interface{}) error { return nil })
	// a websocket upgrade succeeds; the stream writers' first action is the cluster query
	verif_StubFunc("(*github.com/gorilla/websocket.Upgrader).Upgrade", func(_ *websocket.Upgrader, _ http.ResponseWriter, r *http.Request, _ http.Header) (*websocket.Conn, error) {
		if strings.HasSuffix(r.URL.Path, "/shell") {
			return nil, errors.New("the shell session itself is outside the model")
		}
		return &websocket.Conn{}, nil
	})
	verif_StubFunc("wsEventWriter", func(ctx context.Context, _ *websocket.Conn, cfg wsStreamConfig) {
		_, _ = cfg.client.LeaseEvents(ctx, cfg.lid, cfg.services, cfg.follow)
	})
	verif_StubFunc("wsLogWriter", func(ctx context.Context, _ *websocket.Conn, cfg wsStreamConfig) {
		_, _ = cfg.client.LeaseLogs(ctx, cfg.lid, cfg.services, cfg.follow, cfg.tailLines)
	})
}

type c09writer struct{}

func (c09writer) Header() http.Header         { return http.Header{} }
func (c09writer) Write(b []byte) (int, error) { return len(b), nil }
func (c09writer) WriteHeader(code int)        { c09status = append(c09status, code) }

type c09body struct{}

func (c09body) Read([]byte) (int, error) { return 0, io.EOF }
func (c09body) Close() error             { return nil }

// scoped templates of the routing tree, sorted, so that engine and native agree on the index
func c09sorted(tpls []string) []string {
	out := append([]string{}, tpls...)
	for i := 1; i < len(out); i++ {
		for j := i; j > 0 && out[j] < out[j-1]; j-- {
			out[j], out[j-1] = out[j-1], out[j]
		}
	}
	return out
}

func c09scoped(tpl string) bool {
	return strings.HasPrefix(tpl, "/lease/") || strings.HasPrefix(tpl, "/deployment/")
}

// variable names of a template, in order
func c09varNames(tpl string) []string {
	var out []string
	for {
		i := strings.IndexByte(tpl, '{')
		if i < 0 {
			return out
		}
		j := strings.IndexByte(tpl[i:], '}')
		out = append(out, tpl[i+1:i+j])
		tpl = tpl[i+j+1:]
	}
}

func c09seqValue(name string) string {
	switch verif_Choice("var-"+name, 3) {
	case 0:
		return strconv.FormatUint(verif_U64("n-"+name), 10)
	case 1:
		return "x7" // not a number
	}
	return "18446744073709551616" // 2^64: out of range for every sequence number
}

func c09nativeRequest(url, tpl, query string) {
	if query != "" {
		url += "?" + query
	}
	if strings.HasSuffix(tpl, "/kubeevents") || strings.HasSuffix(tpl, "/logs") || strings.HasSuffix(tpl, "/shell") {
		if strings.HasSuffix(tpl, "/shell") {
			sep := "?"
			if query != "" {
				sep = "&"
			}
			url += sep + "cmd0=ls&tty=0&stdin=0&service=web&podIndex=0"
		}
		ws, resp, err := websocket.DefaultDialer.Dial("ws"+strings.TrimPrefix(url, "http"), nil)
		if err == nil {
			for {
				if _, _, err := ws.ReadMessage(); err != nil {
					break
				}
			}
			_ = ws.Close()
		}
		if resp != nil && resp.Body != nil {
			_ = resp.Body.Close()
		}
		return
	}
	method := "GET"
	if strings.HasSuffix(tpl, "/manifest") {
		method = "PUT"
	}
	req, err := http.NewRequest(method, url, bytes.NewReader([]byte("[]")))
	if err != nil {
		panic(err)
	}
	resp, err := http.DefaultClient.Do(req)
	if err == nil {
		_ = resp.Body.Close()
	}
}

func c09run(nth int) {
	A, P, B := verif_Addr(0), verif_Addr(1), verif_Addr(2)
	paddr, err := sdk.AccAddressFromBech32(P)
	if err != nil {
		panic(err)
	}
	seen := &c09seen{active: verif_Choice("deployment-active", 2) == 1}
	authenticated := verif_Choice("client-certificate", 2) == 1
	query := []string{"", "follow=true&tail=3&service=web", "owner=" + B + "&provider=" + B + "&dseq=9&gseq=9&oseq=9"}[verif_Choice("query", 3)]

	var router *mux.Router
	var tpls []string
	if verif_Symbolic() {
		c09installMux()
		router = newRouter(c09log{}, paddr, c09client{s: seen})
		for _, r := range c09routes {
			if c09scoped(r.tpl) {
				tpls = append(tpls, r.tpl)
			}
		}
	} else {
		router = newRouter(c09log{}, paddr, c09client{s: seen})
		_ = router.Walk(func(route *mux.Route, _ *mux.Router, _ []*mux.Route) error {
			if route.GetHandler() == nil {
				return nil
			}
			if t, err := route.GetPathTemplate(); err == nil && c09scoped(t) {
				tpls = append(tpls, t)
			}
			return nil
		})
	}
	tpls = c09sorted(tpls)
	verif_Assert(len(tpls) >= 6, "C09 harness: the router exposes the lease and deployment routes")
	if nth >= len(tpls) {
		return
	}
	tpl := tpls[nth]
	verif_Log("route " + tpl)
	vars := map[string]string{}
	path := tpl
	for _, name := range c09varNames(tpl) {
		v := "web"
		if name != "serviceName" {
			v = c09seqValue(name)
		}
		vars[name] = v
		if !verif_Symbolic() {
			path = strings.Replace(path, "{"+name+"}", v, 1)
		}
	}
	var tlsState *tls.ConnectionState
	if authenticated {
		tlsState = &tls.ConnectionState{PeerCertificates: []*x509.Certificate{{Subject: pkix.Name{CommonName: A}, SerialNumber: big.NewInt(77)}}}
	}
	// history: another tenant, whose certificate may carry the same serial number (serials are
	// unique per owner only), was served by the same router before
	var earlier *tls.ConnectionState
	if verif_Choice("earlier-request-by-another-tenant", 2) == 1 {
		sn := int64(77)
		if verif_Choice("its-serial-differs", 2) == 1 {
			sn = 78
		}
		earlier = &tls.ConnectionState{PeerCertificates: []*x509.Certificate{{Subject: pkix.Name{CommonName: B}, SerialNumber: big.NewInt(sn)}}}
	}
	between := func() {
		for _, id := range seen.leases {
			verif_Assert(id.Owner == B, "C09 a lease-scoped request is executed only against leases of the authenticated account, whatever the URL contains")
		}
		for _, id := range seen.deployments {
			verif_Assert(id.Owner == B, "C09 a deployment-scoped request is executed only against deployments of the authenticated account, whatever the URL contains")
		}
		seen.leases, seen.deployments = nil, nil
	}

	if verif_Symbolic() {
		var rt *c09route
		for _, r := range c09routes {
			if r.tpl == tpl {
				rt = r
			}
		}
		var chain []mux.MiddlewareFunc
		var collect func(n *c09node)
		collect = func(n *c09node) {
			if n == nil {
				return
			}
			collect(n.parent)
			chain = append(chain, n.mws...)
		}
		collect(rt.node)
		var h http.Handler = http.HandlerFunc(rt.h)
		for i := len(chain) - 1; i >= 0; i-- {
			h = chain[i](h)
		}
		c09curVars = vars
		// the URL path is the template itself: path variables reach the code only through mux.Vars
		if earlier != nil {
			req0 := &http.Request{Method: "GET", TLS: earlier, Body: c09body{}, URL: &url.URL{Path: tpl, RawQuery: ""}}
			func() {
				defer func() { _ = recover() }()
				h.ServeHTTP(c09writer{}, req0)
			}()
			between()
		}
		req := &http.Request{Method: "GET", TLS: tlsState, Body: c09body{}, URL: &url.URL{Path: tpl, RawQuery: query}}
		func() {
			defer func() { _ = recover() }() // net/http recovers a panicking handler
			h.ServeHTTP(c09writer{}, req)
		}()
	} else {
		curTLS := tlsState
		srv := httptest.NewServer(http.HandlerFunc(func(w http.ResponseWriter, r *http.Request) {
			r.TLS = curTLS // part (i) decides which certificate gets this far
			router.ServeHTTP(w, r)
		}))
		defer srv.Close()
		if earlier != nil {
			curTLS = earlier
			c09nativeRequest(srv.URL+path, tpl, "")
			between()
			curTLS = tlsState
		}
		c09nativeRequest(srv.URL+path, tpl, query)
	}

	if len(seen.leases)+len(seen.deployments) > 0 {
		verif_Reach("backend-called")
	}
	verif_Assert(authenticated || len(seen.leases)+len(seen.deployments) == 0,
		"C09 a lease- or deployment-scoped request without a verified client certificate reaches no backend")
	for _, id := range seen.leases {
		verif_Assert(id.Owner == A, "C09 a lease-scoped request is executed only against leases of the authenticated account, whatever the URL contains")
		verif_Assert(id.Provider == P, "C09 a lease-scoped request is executed only against leases at this provider")
	}
	for _, id := range seen.deployments {
		verif_Assert(id.Owner == A, "C09 a deployment-scoped request is executed only against deployments of the authenticated account, whatever the URL contains")
	}
}

func Harness_C09_scope_0() { c09run(0) }
func Harness_C09_scope_1() { c09run(1) }
func Harness_C09_scope_2() { c09run(2) }
func Harness_C09_scope_3() { c09run(3) }
func Harness_C09_scope_4() { c09run(4) }
func Harness_C09_scope_5() { c09run(5) }
func Harness_C09_scope_6() { c09run(6) }
func Harness_C09_scope_7() { c09run(7) }
