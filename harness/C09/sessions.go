package utils

// C09 (i-b): "a *currently* valid, unrevoked certificate", across connections.  The TLS library
// is the environment of NewServerTLSConfig; it is modelled by its documented contract
// (crypto/tls.Config): a full handshake calls VerifyPeerCertificate and then VerifyConnection;
// unless SessionTicketsDisabled is set the server hands the client a session ticket, and a later
// connection that offers the ticket is RESUMED: the peer certificates are taken from the ticket,
// VerifyPeerCertificate is NOT called ("This callback is not invoked on resumed connections"),
// only VerifyConnection is.  The harness opens one connection with the genuine certificate while
// it is valid on chain, lets the chain state change (revocation), opens a second connection that
// may offer the ticket, and requires that a second connection authenticated as X implies a
// certificate that is valid on chain at that moment.
// Natively the real crypto/tls runs both handshakes over a loopback listener.

import (
	"context"
	"crypto/tls"
	"crypto/x509"
	"net"
	"time"

	ctypes "github.com/ovrclk/akash/x/cert/types"
)

type c09ticket struct{ raw [][]byte }

// one connection per the contract above (engine)
func c09connectModel(cfg *tls.Config, raw [][]byte, offered *c09ticket) (accepted bool, peer [][]byte, issued *c09ticket, resumed bool) {
	if offered != nil && !cfg.SessionTicketsDisabled {
		resumed, peer = true, offered.raw
	} else {
		peer = raw
		if cfg.VerifyPeerCertificate != nil {
			if err := cfg.VerifyPeerCertificate(raw, nil); err != nil {
				return false, nil, nil, false
			}
		}
	}
	if cfg.VerifyConnection != nil {
		st := tls.ConnectionState{DidResume: resumed}
		for _, der := range peer {
			c, err := x509.ParseCertificate(der)
			if err != nil {
				return false, nil, nil, resumed
			}
			st.PeerCertificates = append(st.PeerCertificates, c)
		}
		if err := cfg.VerifyConnection(st); err != nil {
			return false, nil, nil, resumed
		}
	}
	if !cfg.SessionTicketsDisabled {
		issued = &c09ticket{raw: peer}
	}
	return true, peer, issued, resumed
}

// one real connection (native): the client presents `client` and shares `cache` between connections
func c09connectReal(cfg *tls.Config, client tls.Certificate, cache tls.ClientSessionCache) (accepted bool, npeer int, resumed bool) {
	ln, err := tls.Listen("tcp", "127.0.0.1:0", cfg)
	if err != nil {
		panic(err)
	}
	defer ln.Close()
	type res struct {
		err error
		st  tls.ConnectionState
	}
	done := make(chan res, 1)
	go func() {
		c, err := ln.Accept()
		if err != nil {
			done <- res{err: err}
			return
		}
		defer c.Close()
		tc := c.(*tls.Conn)
		_ = tc.SetDeadline(time.Now().Add(5 * time.Second))
		if err := tc.Handshake(); err != nil {
			done <- res{err: err}
			return
		}
		_, _ = tc.Write([]byte{1})
		done <- res{st: tc.ConnectionState()}
	}()
	cc, err := tls.DialWithDialer(&net.Dialer{Timeout: 5 * time.Second}, "tcp", ln.Addr().String(),
		&tls.Config{InsecureSkipVerify: true, Certificates: []tls.Certificate{client}, ClientSessionCache: cache, MinVersion: tls.VersionTLS13}) // nolint: gosec
	if err == nil {
		_ = cc.SetDeadline(time.Now().Add(5 * time.Second))
		buf := make([]byte, 1)
		_, _ = cc.Read(buf) // also takes delivery of the session ticket
		cc.Close()
	}
	r := <-done
	if r.err != nil {
		return false, 0, false
	}
	return true, len(r.st.PeerCertificates), r.st.DidResume
}

func Harness_C09_sessions() {
	X := verif_Addr(0)
	S := c09serial("chain-serial")
	chain := &c09chain{present: true, owner: X, serial: S, state: ctypes.CertificateValid}
	genuine := verif_CertDERT(X, X, S, 1, 1, true, true, true)
	chain.pem = verif_DERToPEM(genuine)
	var certs []tls.Certificate
	if !verif_Symbolic() {
		P := verif_Addr(3)
		certs = []tls.Certificate{{Certificate: [][]byte{verif_CertDERT(P, P, S, 3, 3, true, true, true)}, PrivateKey: verif_keyN(3)}}
	}
	verif_SetEpoch(1)
	cfg, err := NewServerTLSConfig(context.Background(), certs, c09query{c: chain})
	if err != nil || cfg == nil {
		verif_Assert(false, "C09 the gateway installs a peer-certificate verifier")
		return
	}
	verif_SetEpoch(2)
	revoke := verif_Choice("revoked-between-connections", 2) == 1
	offer := verif_Choice("second-connection-offers-the-ticket", 2) == 1
	var ok1, ok2 bool
	if verif_Symbolic() {
		var ticket *c09ticket
		ok1, _, ticket, _ = c09connectModel(cfg, [][]byte{genuine}, nil)
		if revoke {
			chain.state = ctypes.CertificateRevoked
		}
		if !offer {
			ticket = nil
		}
		var peer [][]byte
		ok2, peer, _, _ = c09connectModel(cfg, [][]byte{genuine}, ticket)
		ok2 = ok2 && len(peer) == 1
	} else {
		client := tls.Certificate{Certificate: [][]byte{genuine}, PrivateKey: verif_keyN(1)}
		var cache tls.ClientSessionCache
		if offer {
			cache = tls.NewLRUClientSessionCache(4)
		}
		var n int
		ok1, n, _ = c09connectReal(cfg, client, cache)
		ok1 = ok1 && n == 1
		if revoke {
			chain.state = ctypes.CertificateRevoked
		}
		ok2, n, _ = c09connectReal(cfg, client, cache)
		ok2 = ok2 && n == 1
	}
	verif_Assert(ok1, "C09 harness: the holder of the valid on-chain certificate connects")
	if ok2 {
		verif_Reach("second-accepted")
		verif_Assert(chain.state == ctypes.CertificateValid, "C09 a certificate revoked since an earlier connection is rejected on every new connection")
	} else {
		verif_Reach("second-rejected")
		verif_Assert(revoke, "C09 harness: the holder of the valid on-chain certificate connects")
	}
}
