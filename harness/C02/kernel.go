package keeper

//verif:pkg x/escrow/keeper

// C02 kernel harnesses: the three settlement functions of x/escrow/keeper are
// executed from SSA on an arbitrary open account with 1..N open payments, arbitrary
// positive rates, arbitrary non-negative balances and an arbitrary positive block gap.

import (
	sdk "github.com/cosmos/cosmos-sdk/types"
	"github.com/ovrclk/akash/x/escrow/types"
)

const c02Denom = "uakt"

// stated value bound: every amount below 2^100 (the whole AKT supply in uakt is below 2^57),
// block gaps below 2^62; inside it no intermediate value reaches the SDK's 2^255 limit.
var c02max = sdk.NewIntFromUint64(1 << 50).Mul(sdk.NewIntFromUint64(1 << 50))

func c02coin(a sdk.Int) sdk.Coin { return sdk.Coin{Denom: c02Denom, Amount: a} }

func c02setup(n int) (types.Account, []types.Payment, sdk.Int, sdk.Int) {
	bal := verif_Int("balance")
	tr := verif_Int("transferred")
	verif_Assume(verif_And(bal.GTE(sdk.ZeroInt()), tr.GTE(sdk.ZeroInt()), bal.LT(c02max), tr.LT(c02max)))
	acc := types.Account{
		ID:          types.AccountID{Scope: "deployment", XID: "x/1"},
		Owner:       "o",
		State:       types.AccountOpen,
		Balance:     c02coin(bal),
		Transferred: c02coin(tr),
		SettledAt:   1,
	}
	ps := make([]types.Payment, n)
	total := sdk.ZeroInt()
	for i := range ps {
		r := verif_Int("rate")
		pb := verif_Int("pbalance")
		pw := verif_Int("pwithdrawn")
		verif_Assume(verif_And(r.IsPositive(), pb.GTE(sdk.ZeroInt()), pw.GTE(sdk.ZeroInt()), r.LT(c02max), pb.LT(c02max), pw.LT(c02max)))
		ps[i] = types.Payment{
			AccountID: acc.ID, PaymentID: "p", Owner: "p", State: types.PaymentOpen,
			Rate: c02coin(r), Balance: c02coin(pb), Withdrawn: c02coin(pw),
		}
		total = total.Add(r)
	}
	delta := verif_Int("delta")
	verif_Assume(verif_And(delta.IsPositive(), delta.LT(sdk.NewInt(1<<62))))
	return acc, ps, delta, total
}

// settle runs the same sequence doAccountSettle runs after loading the records.
func c02settle(acc types.Account, ps []types.Payment, delta, total sdk.Int) (types.Account, []types.Payment, bool, sdk.Coin) {
	a1, p1, od, rem := accountSettleFullblocks(acc, ps, delta, c02coin(total))
	if !od {
		return a1, p1, false, rem
	}
	a1, p1, rem = accountSettleDistributeWeighted(a1, p1, c02coin(total), rem)
	a1, p1, rem = accountSettleDistributeEvenly(a1, p1, rem)
	return a1, p1, true, rem
}

func c02kernel(n int) {
	acc, ps, delta, total := c02setup(n)
	pre := make([]sdk.Int, n)
	for i := range ps {
		pre[i] = ps[i].Balance.Amount
	}
	a1, p1, od, rem := c02settle(acc, append([]types.Payment{}, ps...), delta, total)

	// cut lemmas (each is proved as an obligation of its own, then used): the balance left after
	// the full blocks is below one block's total rate, hence each weighted share is below the payee's rate.
	nfull0 := acc.Balance.Amount.Quo(total)
	if od {
		left := acc.Balance.Amount.Sub(total.Mul(nfull0))
		verif_Lemma(verif_And(left.GTE(sdk.ZeroInt()), left.LT(total)), "C02 lemma: remainder after full blocks is below the block rate")
		for i := range ps {
			verif_Lemma(left.Mul(ps[i].Rate.Amount).LT(total.Mul(ps[i].Rate.Amount)), "C02 lemma: weighted numerator below total x rate")
			verif_Lemma(left.Mul(ps[i].Rate.Amount).Quo(total).LT(ps[i].Rate.Amount), "C02 lemma: weighted share below the payee rate")
		}
	}
	credited := sdk.ZeroInt()
	for i := range p1 {
		got := p1[i].Balance.Amount.Sub(pre[i])
		credited = credited.Add(got)
		full := ps[i].Rate.Amount.Mul(delta)
		if !od {
			verif_Assert(got.Equal(full), "C02 funded: payee credited exactly rate x blocks")
		} else {
			nfull := acc.Balance.Amount.Quo(total)
			base := ps[i].Rate.Amount.Mul(nfull)
			verif_Assert(got.GTE(base), "C02 overdraft: payee gets at least its full-block entitlement")
			verif_Assert(got.LTE(base.Add(ps[i].Rate.Amount)), "C02 overdraft: payee gets at most one further block")
			verif_Assert(got.LTE(full), "C02 overdraft: payee never above rate x blocks")
		}
		verif_Assert(p1[i].Withdrawn.Amount.Equal(ps[i].Withdrawn.Amount), "C02 settle does not touch withdrawn")
		verif_Assert(p1[i].Rate.Amount.Equal(ps[i].Rate.Amount), "C02 settle does not touch rate")
		verif_ObserveInt("credited", got)
	}
	moved := a1.Transferred.Amount.Sub(acc.Transferred.Amount)
	verif_Assert(moved.Equal(credited), "C02 transferred equals total credited to payees")
	verif_Assert(acc.Balance.Amount.Sub(a1.Balance.Amount).Equal(credited), "C01 settle conserves: balance decrease equals credited")
	verif_Assert(a1.Balance.Amount.GTE(sdk.ZeroInt()), "C02 account never transfers more than it holds")
	if od {
		verif_Reach("overdraft")
		verif_Assert(rem.Amount.IsZero(), "C02 overdraft: whole remaining balance distributed")
		verif_Assert(a1.Balance.Amount.IsZero(), "C02 overdraft: account balance is zero")
	} else {
		verif_Reach("funded")
		verif_Assert(rem.Amount.IsZero(), "C02 funded: nothing remaining reported")
	}
	verif_ObserveInt("balance'", a1.Balance.Amount)
	verif_ObserveInt("transferred'", a1.Transferred.Amount)
	verif_ObserveBool("overdrawn", od)
}

func Harness_C02_kernel_1() { c02kernel(1) }
func Harness_C02_kernel_2() { c02kernel(2) }
func Harness_C02_kernel_3() { c02kernel(3) }
func Harness_C02_kernel_4() { c02kernel(4) }

// Path independence: settling after d1 and then after d2 more blocks credits each payee
// the same as settling once after d1+d2, whenever the account stays funded throughout.
func c02split(n int) {
	acc, ps, d1, total := c02setup(n)
	d2 := verif_Int("delta2")
	verif_Assume(verif_And(d2.IsPositive(), d2.LT(sdk.NewInt(1<<62)))) // block gaps below 2^62, as in c02setup
	aA, pA, odA, _ := c02settle(acc, append([]types.Payment{}, ps...), d1, total)
	if odA {
		return
	}
	aB, pB, odB, _ := c02settle(aA, append([]types.Payment{}, pA...), d2, total)
	aC, pC, odC, _ := c02settle(acc, append([]types.Payment{}, ps...), d1.Add(d2), total)
	verif_Assert(odB == odC, "C02 split settle: same overdraft verdict")
	if odB || odC {
		verif_Reach("split-overdraft")
		return
	}
	verif_Reach("split-funded")
	for i := range pB {
		verif_Assert(pB[i].Balance.Amount.Equal(pC[i].Balance.Amount), "C02 split settle: same payee balance")
	}
	verif_Assert(aB.Balance.Amount.Equal(aC.Balance.Amount), "C02 split settle: same account balance")
	verif_Assert(aB.Transferred.Amount.Equal(aC.Transferred.Amount), "C02 split settle: same transferred")
}

func Harness_C02_split_2() { c02split(2) }
func Harness_C02_split_3() { c02split(3) }
