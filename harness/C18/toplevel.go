package sdl

// C18, top level: the same SDL document is accepted, with the same version, under any ordering
// of its top-level mapping keys.  (*sdl).UnmarshalYAML is run on a hand-built top-level mapping
// node whose four entries (version, services, profiles, deployment) come in every one of the 24
// orders.  Engine: (*yaml.Node).Decode is a stub that succeeds (YAML decoding itself is outside
// the family); natively the real decoder runs on the same node.

import (
	"gopkg.in/yaml.v3"
)

func c18pair(key string) []*yaml.Node {
	k := &yaml.Node{Kind: yaml.ScalarNode, Tag: "!!str", Value: key}
	v := &yaml.Node{Kind: yaml.MappingNode, Tag: "!!map"}
	if key == "version" {
		v = &yaml.Node{Kind: yaml.ScalarNode, Tag: "!!str", Value: "2.0", Style: yaml.DoubleQuotedStyle}
	}
	return []*yaml.Node{k, v}
}

func Harness_C18_toplevel_order() {
	keys := []string{"version", "services", "profiles", "deployment"}
	// a permutation by successive choices
	var order []string
	rest := append([]string{}, keys...)
	for len(rest) > 0 {
		i := 0
		if len(rest) > 1 {
			i = verif_Choice("next-key", len(rest))
		}
		order = append(order, rest[i])
		rest = append(rest[:i:i], rest[i+1:]...)
	}
	top := &yaml.Node{Kind: yaml.MappingNode, Tag: "!!map"}
	for _, k := range order {
		top.Content = append(top.Content, c18pair(k)...)
	}
	verif_StubFunc("(*gopkg.in/yaml.v3.Node).Decode", func(*yaml.Node, interface{}) error { return nil })
	var s sdl
	err := s.UnmarshalYAML(top)
	verif_Reach("unmarshalled")
	verif_Assert(err == nil, "C18 the same SDL is accepted under any ordering of its top-level keys")
	if err == nil {
		verif_Assert(s.Version.Major == 2 && s.Version.Minor == 0 && s.Version.Patch == 0, "C18 the same SDL yields the same version under any ordering of its top-level keys")
	}
}
