package sdl

// C10 / C18, attribute lists: the three YAML unmarshalers that turn a mapping into an attribute
// list (memory, storage, placement) produce the same list whatever order Go iterates the
// decoded map in; the list feeds both the manifest version hash and the on-chain group resources.
// Engine: (*yaml.Node).Decode fills the map (stub) and the range over it is a choice point explored
// in every order.  Natively the real decoder runs and the call is repeated to meet several orders.

import (
	"gopkg.in/yaml.v3"

	"github.com/ovrclk/akash/types"
)

func c18attrNode() *yaml.Node {
	n := &yaml.Node{Kind: yaml.MappingNode, Tag: "!!map"}
	for _, kv := range [][2]string{{"b", "2"}, {"c", "3"}, {"a", "1"}} {
		n.Content = append(n.Content,
			&yaml.Node{Kind: yaml.ScalarNode, Tag: "!!str", Value: kv[0]},
			&yaml.Node{Kind: yaml.ScalarNode, Tag: "!!str", Value: kv[1], Style: yaml.DoubleQuotedStyle})
	}
	return n
}

func c18attrCheck(got types.Attributes, err error) {
	const l10 = "C10 the manifest version does not depend on serialization order: attribute lists come out in one canonical order"
	const l18 = "C18 the same SDL yields the same outputs under any ordering of its mapping keys"
	ok := err == nil && len(got) == 3
	if ok {
		ok = got[0].Key == "a" && got[0].Value == "1" && got[1].Key == "b" && got[1].Value == "2" && got[2].Key == "c" && got[2].Value == "3"
	}
	verif_Assert(ok, l10)
	verif_Assert(ok, l18)
}

func Harness_C18_attr_order() {
	verif_StubFunc("(*gopkg.in/yaml.v3.Node).Decode", func(_ *yaml.Node, v interface{}) error {
		if m, ok := v.(*map[string]string); ok {
			*m = map[string]string{"b": "2", "c": "3", "a": "1"}
		}
		return nil
	})
	tries := 1
	if !verif_Symbolic() {
		tries = 64 // Go's map order cannot be forced natively
	}
	which := 1 + verif_Choice("attribute-kind", 3) // memory, storage, placement (cpu attributes are read positionally, no map)
	verif_MapOrderChoice(true)
	for i := 0; i < tries; i++ {
		switch which {
		case 1:
			var a v2MemoryAttributes
			err := a.UnmarshalYAML(c18attrNode())
			c18attrCheck(types.Attributes(a), err)
		case 2:
			var a v2StorageAttributes
			err := a.UnmarshalYAML(c18attrNode())
			c18attrCheck(types.Attributes(a), err)
		case 3:
			var a v2PlacementAttributes
			err := a.UnmarshalYAML(c18attrNode())
			c18attrCheck(types.Attributes(a), err)
		}
	}
	verif_MapOrderChoice(false)
	verif_Reach("unmarshalled")
}
