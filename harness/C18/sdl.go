package sdl

//verif:pkg sdl

// C18: from a decoded SDL v2 document (the claim starts after YAML decoding) the deployment
// groups and the manifest are the same under every Go map iteration order, carry every declared
// leaf unchanged, and the manifest passes the provider's cross-validation against the groups.

import (
	sdk "github.com/cosmos/cosmos-sdk/types"

	"github.com/ovrclk/akash/manifest"
	"github.com/ovrclk/akash/types"
	"github.com/ovrclk/akash/validation"
	dtypes "github.com/ovrclk/akash/x/deployment/types"
)

var (
	c18svcNames   = []string{"web", "db"}
	c18placeNames = []string{"east", "west"}
	c18profNames  = []string{"small", "big"}
	c18protos     = []string{"", "tcp", "UDP"}
)

type c18decl struct {
	svc, place string
	profile    string
	count      uint32
}

func c18doc(nsvc, nplace, nprof, nexpose int) (*v2, []c18decl) {
	doc := &v2{Services: map[string]v2Service{}, Deployments: map[string]v2Deployment{}}
	doc.Profiles.Compute = map[string]v2ProfileCompute{}
	doc.Profiles.Placement = map[string]v2ProfilePlacement{}
	for p := 0; p < nprof; p++ {
		cpu := verif_U32("cpu")
		mem, sto := verif_U64("memory"), verif_U64("storage")
		verif_Assume(verif_And(cpu >= 10, cpu <= 10000, mem >= 1<<20, mem <= 16<<30, sto >= 5<<20, sto <= 1<<40)) // a valid document
		doc.Profiles.Compute[c18profNames[p]] = v2ProfileCompute{Resources: &v2ComputeResources{
			CPU:     &v2ResourceCPU{Units: cpuQuantity(cpu), Attributes: v2CPUAttributes{{Key: "arch", Value: verif_Str("cpu-arch", 1)}}},
			Memory:  &v2ResourceMemory{Quantity: byteQuantity(mem)},
			Storage: &v2ResourceStorage{Quantity: byteQuantity(sto), Attributes: v2StorageAttributes{{Key: "class", Value: verif_Str("storage-class", 1)}}},
		}}
	}
	for l := 0; l < nplace; l++ {
		pr := v2PlacementPricing{}
		for p := 0; p < nprof; p++ {
			amt := verif_Int("price")
			verif_Assume(verif_And(amt.GTE(sdk.OneInt()), amt.LTE(sdk.NewInt(10000000))))
			pr[c18profNames[p]] = v2Coin{Value: sdk.Coin{Denom: "uakt", Amount: amt}}
		}
		doc.Profiles.Placement[c18placeNames[l]] = v2ProfilePlacement{
			Attributes: v2PlacementAttributes{{Key: "region", Value: verif_Str("attr-value", 1)}},
			Pricing:    pr,
		}
	}
	var decls []c18decl
	for s := 0; s < nsvc; s++ {
		svc := v2Service{
			Image:   "img" + verif_Str("image", 1),
			Command: []string{verif_Str("command", 1)},
			Args:    []string{verif_Str("arg", 1)},
			Env:     []string{"K=" + verif_Str("env", 1)},
		}
		for e := 0; e < nexpose; e++ {
			port := verif_U16("port")
			verif_Assume(port >= 1)
			ex := v2Expose{Port: port, As: verif_U16("as"), Proto: c18protos[verif_Choice("proto", 3)]}
			if verif_Choice("has-to", 2) == 1 {
				ex.To = []v2ExposeTo{{Service: []string{"", "db"}[verif_Choice("to-service", 2)], Global: verif_Bool("global")}}
			}
			svc.Expose = append(svc.Expose, ex)
		}
		doc.Services[c18svcNames[s]] = svc
		dep := v2Deployment{}
		for l := 0; l < nplace; l++ {
			cnt := verif_U32("count")
			verif_Assume(verif_And(cnt >= 1, cnt <= 2))
			prof := c18profNames[verif_Choice("profile", nprof)]
			dep[c18placeNames[l]] = v2ServiceDeployment{Profile: prof, Count: cnt}
			decls = append(decls, c18decl{c18svcNames[s], c18placeNames[l], prof, cnt})
		}
		doc.Deployments[c18svcNames[s]] = dep
	}
	return doc, decls
}

func c18findGroup(gs []*dtypes.GroupSpec, name string) *dtypes.GroupSpec {
	for _, g := range gs {
		if g.Name == name {
			return g
		}
	}
	return nil
}

func c18findService(m manifest.Manifest, group, svc string) *manifest.Service {
	for gi := range m {
		if m[gi].Name != group {
			continue
		}
		for si := range m[gi].Services {
			if m[gi].Services[si].Name == svc {
				return &m[gi].Services[si]
			}
		}
	}
	return nil
}

func c18strs(a, b []string) bool {
	if len(a) != len(b) {
		return false
	}
	ok := true
	for i := range a {
		ok = verif_And(ok, a[i] == b[i])
	}
	return ok
}

func c18units(a types.ResourceUnits, c *v2ComputeResources) bool {
	if a.CPU == nil || a.Memory == nil || a.Storage == nil {
		return false
	}
	// resource attributes (cpu architecture, storage class) are part of what the tenant declared
	if len(a.CPU.Attributes) != len(c.CPU.Attributes) || len(a.Storage.Attributes) != len(c.Storage.Attributes) || len(a.Memory.Attributes) != len(c.Memory.Attributes) {
		return false
	}
	for i := range c.CPU.Attributes {
		if a.CPU.Attributes[i].Key != c.CPU.Attributes[i].Key || a.CPU.Attributes[i].Value != c.CPU.Attributes[i].Value {
			return false
		}
	}
	for i := range c.Storage.Attributes {
		if a.Storage.Attributes[i].Key != c.Storage.Attributes[i].Key || a.Storage.Attributes[i].Value != c.Storage.Attributes[i].Value {
			return false
		}
	}
	return verif_And(a.CPU.Units.Val.Equal(sdk.NewIntFromUint64(uint64(c.CPU.Units))),
		a.Memory.Quantity.Val.Equal(sdk.NewIntFromUint64(uint64(c.Memory.Quantity))),
		a.Storage.Quantity.Val.Equal(sdk.NewIntFromUint64(uint64(c.Storage.Quantity))))
}

// faithful + self-consistent
func c18faithful(nsvc, nplace, nprof, nexpose int) {
	doc, decls := c18doc(nsvc, nplace, nprof, nexpose)
	groups, gerr := doc.DeploymentGroups()
	m, merr := doc.Manifest()
	if gerr != nil || merr != nil {
		verif_Reach("translation-failed")
		return
	}
	verif_Reach("translated")
	for _, d := range decls {
		decl := doc.Services[d.svc]
		comp := doc.Profiles.Compute[d.profile].Resources
		ms := c18findService(m, d.place, d.svc)
		verif_Assert(ms != nil, "C18 every declared service appears in the manifest group of its placement")
		if ms == nil {
			continue
		}
		verif_Assert(ms.Image == decl.Image, "C18 declared image appears unchanged in the manifest")
		verif_Assert(c18strs(ms.Command, decl.Command), "C18 declared command appears unchanged in the manifest")
		verif_Assert(c18strs(ms.Args, decl.Args), "C18 declared arguments appear unchanged in the manifest")
		verif_Assert(c18strs(ms.Env, decl.Env), "C18 declared environment appears unchanged in the manifest")
		verif_Assert(ms.Count == d.count, "C18 declared replica count appears unchanged in the manifest")
		verif_Assert(c18units(ms.Resources, comp), "C18 declared resources appear unchanged in the manifest")
		for _, ex := range decl.Expose {
			wantProto := manifest.TCP
			if ex.Proto == "UDP" {
				wantProto = manifest.UDP
			}
			n := len(ex.To)
			if n == 0 {
				n = 1
			}
			for t := 0; t < n; t++ {
				svcName, global := "", false
				if len(ex.To) > 0 {
					svcName, global = ex.To[t].Service, ex.To[t].Global
				}
				found := false
				for _, me := range ms.Expose {
					found = verif_Or(found, verif_And(me.Port == ex.Port, me.ExternalPort == ex.As, me.Proto == wantProto, me.Service == svcName, me.Global == global))
				}
				verif_Assert(found, "C18 declared exposure appears unchanged in the manifest")
			}
		}
		g := c18findGroup(groups, d.place)
		verif_Assert(g != nil, "C18 every placement yields a deployment group")
		if g == nil {
			continue
		}
		price := doc.Profiles.Placement[d.place].Pricing[d.profile].Value
		found := false
		for _, r := range g.Resources {
			found = verif_Or(found, verif_And(r.Count == d.count, r.Price.Amount.Equal(price.Amount), c18units(r.Resources, comp)))
		}
		verif_Assert(found, "C18 declared count, price and resources appear unchanged in the deployment group")
	}
	// the document is valid (what sdl.Read checks) => the manifest passes the provider's cross-validation
	vgroups := make([]dtypes.GroupSpec, 0, len(groups))
	for _, g := range groups {
		vgroups = append(vgroups, *g)
	}
	if dtypes.ValidateDeploymentGroups(vgroups) != nil || validation.ValidateManifest(m) != nil {
		verif_Reach("document-invalid")
		return
	}
	verif_Reach("document-valid")
	verif_Assert(validation.ValidateManifestWithGroupSpecs(&m, groups) == nil, "C18 the manifest passes the provider's validation against the groups of the same document")
}

func Harness_C18_faithful_1x1() { c18faithful(1, 1, 1, 1) }
func Harness_C18_faithful_2x1() { c18faithful(2, 1, 2, 1) }
func Harness_C18_faithful_1x2() { c18faithful(1, 2, 2, 1) }
func Harness_C18_faithful_2x2() { c18faithful(2, 2, 2, 1) }
func Harness_C18_faithful_1x1e2() { c18faithful(1, 1, 1, 2) }

// determinism under Go map order: two runs with independent orders
func c18sameGroups(a, b []*dtypes.GroupSpec) bool {
	if len(a) != len(b) {
		return false
	}
	ok := true
	for i := range a {
		if a[i].Name != b[i].Name || len(a[i].Resources) != len(b[i].Resources) || len(a[i].Requirements.Attributes) != len(b[i].Requirements.Attributes) {
			return false
		}
		for j := range a[i].Resources {
			x, y := a[i].Resources[j], b[i].Resources[j]
			ok = verif_And(ok, x.Count == y.Count, x.Price.Amount.Equal(y.Price.Amount), x.Resources.CPU.Units.Val.Equal(y.Resources.CPU.Units.Val),
				x.Resources.Memory.Quantity.Val.Equal(y.Resources.Memory.Quantity.Val), x.Resources.Storage.Quantity.Val.Equal(y.Resources.Storage.Quantity.Val),
				len(x.Resources.Endpoints) == len(y.Resources.Endpoints))
		}
	}
	return ok
}

func c18sameManifest(a, b manifest.Manifest) bool {
	if len(a) != len(b) {
		return false
	}
	ok := true
	for i := range a {
		if a[i].Name != b[i].Name || len(a[i].Services) != len(b[i].Services) {
			return false
		}
		for j := range a[i].Services {
			x, y := a[i].Services[j], b[i].Services[j]
			if len(x.Expose) != len(y.Expose) {
				return false
			}
			ok = verif_And(ok, x.Name == y.Name, x.Image == y.Image, x.Count == y.Count, c18strs(x.Args, y.Args), c18strs(x.Env, y.Env), c18strs(x.Command, y.Command))
			for k := range x.Expose {
				ok = verif_And(ok, x.Expose[k].Port == y.Expose[k].Port, x.Expose[k].ExternalPort == y.Expose[k].ExternalPort, x.Expose[k].Proto == y.Expose[k].Proto,
					x.Expose[k].Service == y.Expose[k].Service, x.Expose[k].Global == y.Expose[k].Global)
			}
		}
	}
	return ok
}

func c18tries() int {
	if verif_Symbolic() {
		return 1
	}
	return 32
}

func c18determinism(nsvc, nplace, nprof int) {
	doc, _ := c18doc(nsvc, nplace, nprof, 1)
	verif_MapOrderChoice(true)
	g1, ge1 := doc.DeploymentGroups()
	m1, me1 := doc.Manifest()
	for t := 0; t < c18tries(); t++ {
		g2, ge2 := doc.DeploymentGroups()
		m2, me2 := doc.Manifest()
		verif_Assert((ge1 == nil) == (ge2 == nil) && (me1 == nil) == (me2 == nil), "C18 translation outcome is the same on every run")
		if ge1 == nil && ge2 == nil {
			verif_Assert(c18sameGroups(g1, g2), "C18 deployment groups are the same on every run")
		}
		if me1 == nil && me2 == nil {
			verif_Assert(c18sameManifest(m1, m2), "C18 manifest is the same on every run")
		}
	}
	verif_MapOrderChoice(false)
	verif_Reach("translated-twice")
}

func Harness_C18_determinism_2x1() { c18determinism(2, 1, 1) }
func Harness_C18_determinism_1x2() { c18determinism(1, 2, 1) }
func Harness_C18_determinism_2x2() { c18determinism(2, 2, 2) }
