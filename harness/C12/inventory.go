package cluster

//verif:pkg provider/cluster

// C12: inventory accounting.  (i) status queries are read-only and repeatable;
// (ii) a reservation is granted only if all pending reservations plus the new one
// can actually be placed on the reported node capacity and free external ports.

import (
	sdk "github.com/cosmos/cosmos-sdk/types"
	ctypes "github.com/ovrclk/akash/provider/cluster/types"
	atypes "github.com/ovrclk/akash/types"
	dtypes "github.com/ovrclk/akash/x/deployment/types"
	mtypes "github.com/ovrclk/akash/x/market/types"
)

type c12unit struct{ cpu, mem, sto sdk.Int }

func c12max() sdk.Int { return sdk.NewIntFromUint64(1 << 62) }

func c12value(label string) sdk.Int {
	v := verif_Int(label)
	verif_Assume(verif_And(v.GTE(sdk.ZeroInt()), v.LT(c12max())))
	return v
}

func c12units(u c12unit, nEndpoints int) atypes.ResourceUnits {
	return atypes.ResourceUnits{
		CPU:       &atypes.CPU{Units: atypes.ResourceValue{Val: u.cpu}},
		Memory:    &atypes.Memory{Quantity: atypes.ResourceValue{Val: u.mem}},
		Storage:   &atypes.Storage{Quantity: atypes.ResourceValue{Val: u.sto}},
		Endpoints: make([]atypes.Endpoint, nEndpoints),
	}
}

type c12rec struct {
	u     c12unit
	count int
	eps   int
}

// c12reservation builds a reservation with nrec records (symbolic units, count 1..maxCount, 0..2 endpoints).
func c12reservation(seq uint64, nrec, maxCount int) (*reservation, []c12rec) {
	var recs []c12rec
	g := dtypes.GroupSpec{Name: "g"}
	for i := 0; i < nrec; i++ {
		r := c12rec{
			u:     c12unit{c12value("cpu"), c12value("mem"), c12value("sto")},
			count: 1 + verif_Choice("count", maxCount),
			eps:   verif_Choice("endpoints", 3),
		}
		recs = append(recs, r)
		g.Resources = append(g.Resources, dtypes.Resource{Resources: c12units(r.u, r.eps), Count: uint32(r.count)})
	}
	oid := mtypes.OrderID{Owner: "o", DSeq: seq, GSeq: 1, OSeq: 1}
	return newReservation(oid, g), recs
}

func c12snapshot(rs []*reservation) []sdk.Int {
	var out []sdk.Int
	for _, r := range rs {
		for _, res := range r.Resources().GetResources() {
			out = append(out, res.Resources.CPU.Units.Val, res.Resources.Memory.Quantity.Val, res.Resources.Storage.Quantity.Val)
		}
	}
	return out
}

func c12totals(st ctypes.InventoryStatus) []sdk.Int {
	var out []sdk.Int
	for _, l := range [][]atypes.ResourceUnits{st.Active, st.Pending} {
		for _, u := range l {
			out = append(out, u.CPU.Units.Val, u.Memory.Quantity.Val, u.Storage.Quantity.Val)
		}
	}
	return out
}

func c12status(nres, nrec int) {
	var rs []*reservation
	var recs [][]c12rec
	for i := 0; i < nres; i++ {
		r, rc := c12reservation(uint64(i+1), nrec, 2)
		r.allocated = verif_Bool("allocated")
		rs = append(rs, r)
		recs = append(recs, rc)
	}
	is := &inventoryService{}
	pre := c12snapshot(rs)
	st1 := is.getStatus(nil, rs)
	mid := c12snapshot(rs)
	st2 := is.getStatus(nil, rs)
	post := c12snapshot(rs)
	verif_Assert(st1.Error == nil && st2.Error == nil, "C12 status of valid reservations does not fail")
	for i := range pre {
		verif_Assert(pre[i].Equal(mid[i]), "C12 status query leaves every reservation unchanged")
		verif_Assert(pre[i].Equal(post[i]), "C12 second status query leaves every reservation unchanged")
	}
	t1, t2 := c12totals(st1), c12totals(st2)
	verif_Assert(len(t1) == len(t2) && len(st1.Active)+len(st1.Pending) == nres, "C12 status reports one entry per reservation")
	for i := range t1 {
		if i < len(t2) {
			verif_Assert(t1[i].Equal(t2[i]), "C12 repeated status query reports the same amounts")
		}
	}
	// reported totals are the sums over the reservation's records (replica counts are not part of the report)
	k := 0
	for _, l := range []bool{true, false} {
		for i, r := range rs {
			if r.allocated != l {
				continue
			}
			c, m, s := sdk.ZeroInt(), sdk.ZeroInt(), sdk.ZeroInt()
			for _, rc := range recs[i] {
				c, m, s = c.Add(rc.u.cpu), m.Add(rc.u.mem), s.Add(rc.u.sto)
			}
			if k+2 < len(t1) {
				verif_Assert(verif_And(t1[k].Equal(c), t1[k+1].Equal(m), t1[k+2].Equal(s)), "C12 status reports the sum of the reservation's resource records")
			}
			k += 3
		}
	}
	verif_Reach("status-done")
}

func Harness_C12_status_1x1() { c12status(1, 1) }
func Harness_C12_status_1x2() { c12status(1, 2) }
func Harness_C12_status_2x2() { c12status(2, 2) }
func Harness_C12_status_1x3() { c12status(1, 3) }

// ---------- (ii) reservationAllocateable ----------

type c12replica struct{ u c12unit }

// exists a placement of replicas[i:] on the nodes given what is already used on each node
func c12place(reps []c12replica, i int, nodes []c12unit, used []c12unit) bool {
	if i == len(reps) {
		ok := true
		for n := range nodes {
			ok = verif_And(ok, used[n].cpu.LTE(nodes[n].cpu), used[n].mem.LTE(nodes[n].mem), used[n].sto.LTE(nodes[n].sto))
		}
		return ok
	}
	any := false
	for n := range nodes {
		nu := make([]c12unit, len(used))
		copy(nu, used)
		nu[n] = c12unit{used[n].cpu.Add(reps[i].u.cpu), used[n].mem.Add(reps[i].u.mem), used[n].sto.Add(reps[i].u.sto)}
		any = verif_Or(any, c12place(reps, i+1, nodes, nu))
	}
	return any
}

func c12alloc(nnodes, npending, nrec, maxCount int) {
	var nodes []c12unit
	var inv []ctypes.Node
	for n := 0; n < nnodes; n++ {
		u := c12unit{c12value("ncpu"), c12value("nmem"), c12value("nsto")}
		nodes = append(nodes, u)
		inv = append(inv, NewNode("n", c12units(u, 0), c12units(u, 0)))
	}
	ports := verif_U32("ports")
	var rs []*reservation
	var reps []c12replica
	needPorts := 0
	for i := 0; i < npending; i++ {
		r, rc := c12reservation(uint64(i+1), nrec, maxCount)
		r.allocated = verif_Choice("allocated", 2) == 1
		rs = append(rs, r)
		if !r.allocated {
			for _, x := range rc {
				for k := 0; k < x.count; k++ {
					reps = append(reps, c12replica{x.u})
				}
				needPorts += x.eps
			}
		}
	}
	nr, rc := c12reservation(99, nrec, maxCount)
	for _, x := range rc {
		for k := 0; k < x.count; k++ {
			reps = append(reps, c12replica{x.u})
		}
		needPorts += x.eps
	}
	pre := c12snapshot(append(append([]*reservation{}, rs...), nr))
	granted := reservationAllocateable(inv, uint(ports), rs, nr)
	post := c12snapshot(append(append([]*reservation{}, rs...), nr))
	for i := range pre {
		verif_Assert(pre[i].Equal(post[i]), "C12 capacity check leaves reservations unchanged")
	}
	for n := range nodes {
		a := inv[n].Available()
		verif_Assert(verif_And(a.CPU.Units.Val.Equal(nodes[n].cpu), a.Memory.Quantity.Val.Equal(nodes[n].mem), a.Storage.Quantity.Val.Equal(nodes[n].sto)),
			"C12 capacity check leaves the reported inventory unchanged")
	}
	verif_ObserveBool("granted", granted)
	if granted {
		verif_Reach("granted")
		verif_Assert(uint64(needPorts) <= uint64(ports), "C12 granted reservation fits the free external ports")
		verif_Assert(c12place(reps, 0, nodes, make0(len(nodes))), "C12 granted reservation: pending plus new replicas can be placed on node capacity")
	} else {
		verif_Reach("refused")
	}
}

func make0(n int) []c12unit {
	out := make([]c12unit, n)
	for i := range out {
		out[i] = c12unit{sdk.ZeroInt(), sdk.ZeroInt(), sdk.ZeroInt()}
	}
	return out
}

func Harness_C12_alloc_n1p0() { c12alloc(1, 0, 1, 2) }
func Harness_C12_alloc_n1p1() { c12alloc(1, 1, 1, 2) }
func Harness_C12_alloc_n2p0() { c12alloc(2, 0, 2, 2) }
func Harness_C12_alloc_n2p1() { c12alloc(2, 1, 1, 2) }
func Harness_C12_alloc_n2p1r2() { c12alloc(2, 1, 2, 1) }
func Harness_C12_alloc_n2p2() { c12alloc(2, 2, 1, 1) }
