package cluster

//verif:pkg provider/cluster

// C12 (iii): the real inventoryService.run loop against an environment that sends reserve /
// release / status requests, deployment-status events (pending / deployed) and inventory
// refreshes in every scheduler-chosen order.  Nodes are large, so the binding resource is the
// pool of external ports; the oracle tracks the reservations granted and not yet released.

import (
	"context"
	"errors"
	"time"

	lifecycle "github.com/boz/go-lifecycle"
	"github.com/tendermint/tendermint/libs/log"

	"github.com/ovrclk/akash/manifest"
	ctypes "github.com/ovrclk/akash/provider/cluster/types"
	"github.com/ovrclk/akash/provider/event"
	"github.com/ovrclk/akash/pubsub"
	atypes "github.com/ovrclk/akash/types"
	dtypes "github.com/ovrclk/akash/x/deployment/types"
	mtypes "github.com/ovrclk/akash/x/market/types"
)

const c12ports = 2

type c12loopEnv struct {
	is       *inventoryService
	events   chan pubsub.Event
	held     map[uint64]int  // order dseq -> endpoints of a granted, not released reservation
	deployed map[uint64]bool // last reported status of a held reservation
	nreq     int
}

type c12sub struct{ ch chan pubsub.Event }

func (s c12sub) Events() <-chan pubsub.Event       { return s.ch }
func (s c12sub) Clone() (pubsub.Subscriber, error) { return s, nil }
func (s c12sub) Close()                            {}
func (s c12sub) Done() <-chan struct{}             { return nil }

type c12client struct{ Client }

func (c12client) Inventory(context.Context) ([]ctypes.Node, error) {
	if verif_Gate("Inventory", 2) == 1 {
		return nil, errors.New("inventory fetch failed")
	}
	big := atypes.ResourceUnits{
		CPU:     &atypes.CPU{Units: atypes.NewResourceValue(1 << 40)},
		Memory:  &atypes.Memory{Quantity: atypes.NewResourceValue(1 << 50)},
		Storage: &atypes.Storage{Quantity: atypes.NewResourceValue(1 << 50)},
	}
	return []ctypes.Node{NewNode("n", big, big)}, nil
}

func c12oid(d uint64) mtypes.OrderID { return mtypes.OrderID{Owner: "o", DSeq: d, GSeq: 1, OSeq: 1} }

func c12group(endpoints int) dtypes.GroupSpec {
	u := atypes.ResourceUnits{
		CPU:       &atypes.CPU{Units: atypes.NewResourceValue(100)},
		Memory:    &atypes.Memory{Quantity: atypes.NewResourceValue(1 << 20)},
		Storage:   &atypes.Storage{Quantity: atypes.NewResourceValue(1 << 20)},
		Endpoints: make([]atypes.Endpoint, endpoints),
	}
	return dtypes.GroupSpec{Name: "g", Resources: []dtypes.Resource{{Resources: u, Count: 1}}}
}

func c12loopNew() *c12loopEnv {
	e := &c12loopEnv{events: make(chan pubsub.Event), held: map[uint64]int{}, deployed: map[uint64]bool{}}
	e.is = &inventoryService{
		config: Config{InventoryResourcePollPeriod: time.Hour, InventoryResourceDebugFrequency: 10, InventoryExternalPortQuantity: c12ports},
		client: c12client{}, sub: c12sub{e.events},
		statusch: make(chan chan<- ctypes.InventoryStatus), lookupch: make(chan inventoryRequest), reservech: make(chan inventoryRequest), unreservech: make(chan inventoryRequest),
		readych: make(chan struct{}), log: log.NewNopLogger(), lc: lifecycle.New(), availableExternalPorts: c12ports,
	}
	return e
}

func (e *c12loopEnv) inUse() int {
	n := 0
	for _, eps := range e.held {
		n += eps
	}
	return n
}

// onReserve / onUnreserve / onStatus: what the oracle requires of each answer
func (e *c12loopEnv) onReserve(d uint64, eps int, r inventoryResponse) {
	if r.err != nil {
		return
	}
	verif_Assert(e.inUse()+eps <= c12ports, "C12 a reservation is granted only within the free external ports")
	e.held[d] = eps
	e.deployed[d] = false
}

func (e *c12loopEnv) onUnreserve(d uint64, r inventoryResponse) {
	_, had := e.held[d]
	verif_Assert((r.err == nil) == had, "C12 a release succeeds exactly for a reservation that is held")
	if r.err == nil {
		delete(e.held, d)
		delete(e.deployed, d)
	}
}

func (e *c12loopEnv) onStatus(st ctypes.InventoryStatus) {
	verif_Assert(st.Error == nil, "C12 status never fails")
	verif_Assert(len(st.Active)+len(st.Pending) == len(e.held), "C12 status reports exactly the reservations granted and not yet released")
}

func c12loopSymbolic(steps int) {
	e := c12loopNew()
	is := e.is
	verif_EnvChan(is.reservech, "reserve", 3, func() interface{} {
		e.nreq++
		d := uint64(e.nreq)
		eps := 1 + verif_Pick("reserve", 2) // 1 or 2 endpoints
		ch := make(chan inventoryResponse, 1)
		verif_EnvSinkFn(ch, "reserve-reply", func(v interface{}) { e.onReserve(d, eps, v.(inventoryResponse)) })
		return inventoryRequest{order: c12oid(d), resources: c12group(eps), ch: ch}
	})
	verif_EnvChan(is.unreservech, "unreserve", 2, func() interface{} {
		d := uint64(1 + verif_Pick("unreserve", 2))
		ch := make(chan inventoryResponse, 1)
		verif_EnvSinkFn(ch, "unreserve-reply", func(v interface{}) { e.onUnreserve(d, v.(inventoryResponse)) })
		return inventoryRequest{order: c12oid(d), ch: ch}
	})
	verif_EnvChan(is.statusch, "status", 1, func() interface{} {
		verif_Pick("status", 1)
		ch := make(chan ctypes.InventoryStatus, 1)
		verif_EnvSinkFn(ch, "status-reply", func(v interface{}) { e.onStatus(v.(ctypes.InventoryStatus)) })
		return (chan<- ctypes.InventoryStatus)(ch)
	})
	verif_EnvChan(e.events, "event", 3, func() interface{} {
		k := verif_Pick("event", 4) // order 1|2 x pending|deployed
		d := uint64(1 + k/2)
		st := event.ClusterDeploymentPending
		if k%2 == 1 {
			st = event.ClusterDeploymentDeployed
		}
		return event.ClusterDeployment{LeaseID: mtypes.MakeLeaseID(mtypes.MakeBidID(c12oid(d), nil)), Group: &manifest.Group{Name: "g"}, Status: st}
	})
	verif_EnvFinal(is.lc.ShutdownRequest(), "shutdown", 1, func() interface{} { verif_Pick("shutdown", 1); return error(nil) })
	verif_Steps(steps)
	is.run(nil)
	verif_Reach("returned")
}

func c12loopNative() {
	verif_LoopReset()
	e := c12loopNew()
	is := e.is
	done := make(chan struct{})
	go func() { is.run(nil); close(done) }()
	try := func(f func() bool) bool {
		deadline := time.After(time.Second)
		for {
			if f() {
				return true
			}
			select {
			case <-done:
				return false
			case <-deadline:
				return false
			default:
				time.Sleep(time.Millisecond)
			}
		}
	}
	for _, s := range verif_Schedule() {
		kind, name, val := verif_Step(s)
		switch kind {
		case "op":
			verif_Release(name, val)
		case "reserve":
			e.nreq++
			d, eps := uint64(e.nreq), 1+val
			ch := make(chan inventoryResponse, 1)
			if try(func() bool {
				select {
				case is.reservech <- inventoryRequest{order: c12oid(d), resources: c12group(eps), ch: ch}:
					return true
				default:
					return false
				}
			}) {
				select {
				case r := <-ch:
					e.onReserve(d, eps, r)
				case <-time.After(time.Second):
				}
			}
		case "unreserve":
			d := uint64(1 + val)
			ch := make(chan inventoryResponse, 1)
			if try(func() bool {
				select {
				case is.unreservech <- inventoryRequest{order: c12oid(d), ch: ch}:
					return true
				default:
					return false
				}
			}) {
				select {
				case r := <-ch:
					e.onUnreserve(d, r)
				case <-time.After(time.Second):
				}
			}
		case "status":
			ch := make(chan ctypes.InventoryStatus, 1)
			if try(func() bool {
				select {
				case is.statusch <- ch:
					return true
				default:
					return false
				}
			}) {
				select {
				case st := <-ch:
					e.onStatus(st)
				case <-time.After(time.Second):
				}
			}
		case "event":
			d := uint64(1 + val/2)
			st := event.ClusterDeploymentPending
			if val%2 == 1 {
				st = event.ClusterDeploymentDeployed
			}
			ev := event.ClusterDeployment{LeaseID: mtypes.MakeLeaseID(mtypes.MakeBidID(c12oid(d), nil)), Group: &manifest.Group{Name: "g"}, Status: st}
			try(func() bool {
				select {
				case e.events <- ev:
					return true
				default:
					return false
				}
			})
		case "shutdown":
			go is.lc.ShutdownAsync(nil)
		}
		verif_Settle()
	}
	verif_ReleaseAll()
	go is.lc.ShutdownAsync(nil)
	select {
	case <-done:
	case <-time.After(3 * time.Second):
		verif_Assert(false, "C12 the inventory service stops on shutdown")
	}
	verif_Reach("returned")
}

func c12loop(steps int) {
	if verif_Symbolic() {
		c12loopSymbolic(steps)
	} else {
		c12loopNative()
	}
}

func Harness_C12_loop_5() { c12loop(5) }
func Harness_C12_loop_6() { c12loop(6) }
func Harness_C12_loop_7() { c12loop(7) }
