package types

//verif:pkg x/deployment/types

// C08 (attribute kernel): GroupSpec.MatchRequirements accepts a provider only if the provider's
// attributes - self-declared, or, when auditors are required, attested by every all-of auditor and
// by at least one any-of auditor - cover every required attribute.  Oracle written from the statement.

import (
	akashtypes "github.com/ovrclk/akash/types"
	atypes "github.com/ovrclk/akash/x/audit/types"
)

var c08auditors = []string{"aud-1", "aud-2", "aud-3"}

func c08attr(label string) akashtypes.Attribute {
	return akashtypes.Attribute{Key: verif_Str(label+"-key", 1), Value: verif_Str(label+"-value", 1)}
}

func c08attrs(label string, n int) akashtypes.Attributes {
	var out akashtypes.Attributes
	for i := 0; i < n; i++ {
		out = append(out, c08attr(label))
	}
	return out
}

// covers: every (key,value) pair of req occurs in have
func c08covers(req, have akashtypes.Attributes) bool {
	ok := true
	for _, r := range req {
		found := false
		for _, h := range have {
			found = verif_Or(found, verif_And(r.Key == h.Key, r.Value == h.Value))
		}
		ok = verif_And(ok, found)
	}
	return ok
}

func c08auditorList(label string, n int) []string {
	var out []string
	for i := 0; i < n; i++ {
		out = append(out, c08auditors[verif_Choice(label, 3)])
	}
	return out
}

func c08match(nReq, nOwn, nAll, nAny int, att [3]int) {
	g := GroupSpec{Name: "g"}
	g.Requirements.Attributes = c08attrs("req", nReq)
	g.Requirements.SignedBy.AllOf = c08auditorList("all-of", nAll)
	g.Requirements.SignedBy.AnyOf = c08auditorList("any-of", nAny)
	own := c08attrs("own", nOwn)
	provs := []atypes.Provider{{Owner: "p", Attributes: own}}
	attested := map[string]akashtypes.Attributes{}
	for i, n := range att {
		if n < 0 {
			continue
		}
		a := c08attrs("att", n)
		attested[c08auditors[i]] = a
		provs = append(provs, atypes.Provider{Owner: "p", Auditor: c08auditors[i], Attributes: a})
	}
	got := g.MatchRequirements(provs)
	// oracle
	var want bool
	if nAll == 0 && nAny == 0 {
		want = c08covers(g.Requirements.Attributes, own)
	} else {
		want = true
		for _, a := range g.Requirements.SignedBy.AllOf {
			at, ok := attested[a]
			want = verif_And(want, ok && c08covers(g.Requirements.Attributes, at))
		}
		if nAny > 0 {
			some := false
			for _, a := range g.Requirements.SignedBy.AnyOf {
				at, ok := attested[a]
				some = verif_Or(some, ok && c08covers(g.Requirements.Attributes, at))
			}
			want = verif_And(want, some)
		}
	}
	if got {
		verif_Reach("matched")
	} else {
		verif_Reach("refused")
	}
	verif_ObserveBool("matched", got)
	verif_Assert(verif_Implies(got, want), "C08 a provider matches only if its (self-declared or attested) attributes cover every requirement")
}

func Harness_C08_match_self_1()  { c08match(1, 2, 0, 0, [3]int{-1, -1, -1}) }
func Harness_C08_match_self_2()  { c08match(2, 2, 0, 0, [3]int{1, -1, -1}) }
func Harness_C08_match_allof_1() { c08match(1, 1, 1, 0, [3]int{1, 1, -1}) }
func Harness_C08_match_allof_2() { c08match(1, 1, 2, 0, [3]int{1, 1, -1}) }
func Harness_C08_match_anyof_1() { c08match(1, 1, 0, 1, [3]int{1, -1, 1}) }
func Harness_C08_match_anyof_2() { c08match(1, 1, 0, 2, [3]int{1, 1, -1}) }
func Harness_C08_match_both()    { c08match(1, 1, 1, 1, [3]int{1, 1, -1}) }
func Harness_C08_match_both_2()  { c08match(2, 1, 1, 2, [3]int{2, 1, 2}) }
func Harness_C08_match_none()    { c08match(1, 1, 1, 1, [3]int{-1, -1, -1}) }
