package keeper

// C08 / C06 (attestation store): one operation of the real audit keeper from an arbitrary state
// with two auditors attesting the same provider.  After it, the acting auditor's record holds
// exactly the attributes that auditor currently signs (a withdrawn attestation no longer counts
// towards bid admission), and the other auditor's record is untouched.

import (
	sdk "github.com/cosmos/cosmos-sdk/types"

	akashtypes "github.com/ovrclk/akash/types"
	"github.com/ovrclk/akash/x/audit/types"
)

func c08put(ctx sdk.Context, k Keeper, id types.ProviderID, attrs akashtypes.Attributes) {
	rec := types.Provider{Owner: id.Owner.String(), Auditor: id.Auditor.String(), Attributes: attrs}
	ctx.KVStore(k.skey).Set(providerKey(id), k.cdc.MustMarshalBinaryBare(&rec))
}

func c08lookup(attrs akashtypes.Attributes, key string) (string, bool) {
	for _, a := range attrs {
		if a.Key == key {
			return a.Value, true
		}
	}
	return "", false
}

const (
	c08label = "C08 an auditor's record holds exactly the attributes it currently signs (a withdrawn attestation no longer counts)"
	c06label = "C06 an attestation message touches only the record of the auditor that signed it"
	c16label = "C16 creating, updating or deleting an attestation emits exactly the corresponding typed event"
)

func c08audit(nOld int, del bool) {
	skey := sdk.NewKVStoreKey(types.StoreKey)
	ctx := verif_NewContext(5, skey)
	k := Keeper{skey: skey, cdc: verif_Codec()}
	acting := types.ProviderID{Owner: c07acc(1), Auditor: c07acc(2)}
	other := types.ProviderID{Owner: c07acc(1), Auditor: c07acc(3)}
	old := c07attrs("old", nOld)
	for i := 1; i < len(old); i++ {
		verif_Assume(old[i-1].Key < old[i].Key) // INV: stored attributes are sorted by key, keys unique
	}
	if nOld > 0 {
		c08put(ctx, k, acting, old)
	}
	otherAttrs := c07attrs("other", 1)
	hasOther := verif_Choice("other-auditor-attests", 2) == 1
	if hasOther {
		c08put(ctx, k, other, otherAttrs)
	}
	var err error
	var keys []string
	var upd akashtypes.Attributes
	if del {
		switch verif_Choice("delete-keys", 3) {
		case 0: // nil: withdraw everything
		case 1:
			keys = []string{verif_Str("del-key", 1)}
		case 2:
			keys = []string{verif_Str("del-key", 1), verif_Str("del-key", 1)}
			verif_Assume(keys[0] != keys[1])
		}
		err = k.DeleteProviderAttributes(ctx, acting, keys)
	} else {
		upd = c07attrs("new", 1+verif_Choice("new-attributes", 2))
		if len(upd) == 2 {
			verif_Assume(upd[0].Key != upd[1].Key)
		}
		err = k.CreateOrUpdateProviderAttributes(ctx, acting, upd)
	}
	// C16: a successful create/update (delete) of an attestation emits exactly the typed
	// trusted-auditor-created (-deleted) event naming owner and auditor; a failed one emits nothing
	{
		evs := ctx.EventManager().Events()
		want := types.NewEventTrustedAuditorCreated(acting.Owner, acting.Auditor).ToSDKEvent()
		if del {
			want = types.NewEventTrustedAuditorDeleted(acting.Owner, acting.Auditor).ToSDKEvent()
		}
		if err != nil {
			verif_Assert(len(evs) == 0, c16label)
		} else {
			verif_Reach("event-checked")
			verif_Assert(len(evs) == 1, c16label)
			if len(evs) == 1 {
				same := evs[0].Type == want.Type && len(evs[0].Attributes) == len(want.Attributes)
				for i := 0; same && i < len(want.Attributes); i++ {
					same = string(evs[0].Attributes[i].Key) == string(want.Attributes[i].Key) && string(evs[0].Attributes[i].Value) == string(want.Attributes[i].Value)
				}
				verif_Assert(same, c16label)
			}
		}
	}
	got, found := k.GetProviderByAuditor(ctx, acting)
	if err != nil {
		verif_Reach("rejected")
		// a failed operation leaves the record as it was
		verif_Assert(found == (nOld > 0) && len(got.Attributes) == len(old), c08label)
	} else {
		verif_Reach("accepted")
		// what the auditor signs now
		var want akashtypes.Attributes
		for _, a := range old {
			deleted := del && keys == nil
			for _, dk := range keys {
				deleted = verif_Or(deleted, dk == a.Key)
			}
			if _, replaced := c08lookup(upd, a.Key); !deleted && !replaced {
				want = append(want, a)
			}
		}
		want = append(want, upd...)
		verif_Assert(found == (len(want) > 0), c08label)
		if found {
			verif_Assert(len(got.Attributes) == len(want), c08label)
			for _, a := range want {
				v, ok := c08lookup(got.Attributes, a.Key)
				verif_Assert(ok && v == a.Value, c08label)
			}
			for _, dk := range keys {
				_, still := c08lookup(got.Attributes, dk)
				verif_Assert(!still, c08label)
			}
		}
	}
	o, ofound := k.GetProviderByAuditor(ctx, other)
	verif_Assert(ofound == hasOther, c06label)
	if ofound && hasOther {
		verif_Assert(o.Auditor == other.Auditor.String() && len(o.Attributes) == 1 && o.Attributes[0].Key == otherAttrs[0].Key && o.Attributes[0].Value == otherAttrs[0].Value, c06label)
	}
}

func Harness_C08_audit_update_0() { c08audit(0, false) }
func Harness_C08_audit_update_2() { c08audit(2, false) }
func Harness_C08_audit_delete_1() { c08audit(1, true) }
func Harness_C08_audit_delete_2() { c08audit(2, true) }
