package keeper

// C07 (certificate module): the same create / revoke message executed on the same state by two
// nodes at different wall-clock instants gives the same result and the same stored state.  The
// clock is a two-epoch harness clock (time.Now differs between the two executions) and the
// certificate's validity window may contain either instant, both or none.

import (
	sdk "github.com/cosmos/cosmos-sdk/types"
	"github.com/ovrclk/akash/x/cert/types"
)

func c07certState(ctx sdk.Context, k *keeper, id types.CertID) (bool, types.Certificate_State) {
	r, ok := k.GetCertificateByID(ctx, id)
	if !ok {
		return false, 0
	}
	return true, r.Certificate.State
}

func c07certRun(n int, revoke bool) {
	ctx, k := c17env()
	cs := c17seed(ctx, k, n)
	signer := verif_Choice("signer", 2)
	serial := c17serial("new-serial")
	v1, v2 := verif_Bool("valid-at-first-execution"), verif_Bool("valid-at-second-execution")
	der := verif_CertDERT(verif_Addr(signer), verif_Addr(signer), serial, 1, 1, v1, v2, true)
	id := types.CertID{Owner: c17addr(signer), Serial: *serial.BigInt()}
	exec := func(c sdk.Context) error {
		if revoke {
			return c17revoke(c, k, &types.MsgRevokeCertificate{ID: types.CertificateID{Owner: verif_Addr(signer), Serial: serial.String()}})
		}
		return c17create(c, k, &types.MsgCreateCertificate{Owner: verif_Addr(signer), Cert: verif_DERToPEM(der), Pubkey: verif_PubPEM()})
	}
	verif_SetEpoch(1) // the node that executes the block when it is produced
	c1 := verif_ForkContext(ctx)
	err1 := exec(c1)
	ok1, st1 := c07certState(c1, k, id)
	verif_SetEpoch(2) // another node replaying the same block later
	c2 := verif_ForkContext(ctx)
	err2 := exec(c2)
	ok2, st2 := c07certState(c2, k, id)
	verif_Reach("executed-twice")
	if err1 == nil {
		verif_Reach("accepted")
	}
	verif_Assert((err1 == nil) == (err2 == nil), "C07 repeated execution gives the same result")
	verif_Assert(ok1 == ok2 && st1 == st2, "C07 repeated execution gives the same state")
	for _, c := range cs {
		a1, s1 := c07certState(c1, k, c17id(c))
		a2, s2 := c07certState(c2, k, c17id(c))
		verif_Assert(a1 == a2 && s1 == s2, "C07 repeated execution gives the same state")
	}
}

func Harness_C07_cert_create_1() { c07certRun(1, false) }
func Harness_C07_cert_revoke_1() { c07certRun(1, true) }
