package keeper

//verif:pkg x/audit/keeper

// C07 (B): the two audit-keeper operations that range over a Go map are executed twice from
// the same state with independent map iteration orders (every permutation is explored);
// stored record, result and events must be identical.

import (
	sdk "github.com/cosmos/cosmos-sdk/types"

	akashtypes "github.com/ovrclk/akash/types"
	"github.com/ovrclk/akash/x/audit/types"
)

func c07acc(i int) sdk.AccAddress {
	a, err := sdk.AccAddressFromBech32(verif_Addr(i))
	if err != nil {
		panic(err)
	}
	return a
}

func c07attrs(label string, n int) akashtypes.Attributes {
	var out akashtypes.Attributes
	for i := 0; i < n; i++ {
		out = append(out, akashtypes.Attribute{Key: verif_Str(label+"-key", 1), Value: verif_Str(label+"-value", 1)})
	}
	return out
}

func c07tries() int {
	if verif_Symbolic() {
		return 1
	}
	return 64
}

type c07result struct {
	found bool
	attrs akashtypes.Attributes
	err   bool
	nev   int
}

func c07read(ctx sdk.Context, k Keeper, id types.ProviderID, err error) c07result {
	p, ok := k.GetProviderByAuditor(ctx, id)
	return c07result{found: ok, attrs: p.Attributes, err: err != nil, nev: len(ctx.EventManager().Events())}
}

func c07same(a, b c07result) {
	verif_Assert(a.err == b.err, "C07 repeated execution gives the same result")
	verif_Assert(a.found == b.found && len(a.attrs) == len(b.attrs), "C07 repeated execution stores the same record")
	if len(a.attrs) == len(b.attrs) {
		for i := range a.attrs {
			verif_Assert(verif_And(a.attrs[i].Key == b.attrs[i].Key, a.attrs[i].Value == b.attrs[i].Value), "C07 repeated execution stores the same attributes in the same order")
		}
	}
	verif_Assert(a.nev == b.nev, "C07 repeated execution emits the same events")
}

func c07env(nOld int) (sdk.Context, Keeper, types.ProviderID) {
	skey := sdk.NewKVStoreKey(types.StoreKey)
	ctx := verif_NewContext(5, skey)
	k := Keeper{skey: skey, cdc: verif_Codec()}
	id := types.ProviderID{Owner: c07acc(1), Auditor: c07acc(2)}
	if nOld > 0 {
		old := c07attrs("old", nOld)
		// INV: a stored record has attributes sorted by key, keys unique (established by the code itself)
		for i := 1; i < len(old); i++ {
			verif_Assume(old[i-1].Key < old[i].Key)
		}
		rec := types.Provider{Owner: id.Owner.String(), Auditor: id.Auditor.String(), Attributes: old}
		ctx.KVStore(skey).Set(providerKey(id), k.cdc.MustMarshalBinaryBare(&rec))
	}
	return ctx, k, id
}

func c07update(nOld, nNew int) {
	base, k, id := c07env(nOld)
	attrs := c07attrs("new", nNew)
	verif_MapOrderChoice(true)
	c1 := verif_ForkContext(base).WithEventManager(sdk.NewEventManager())
	r1 := c07read(c1, k, id, k.CreateOrUpdateProviderAttributes(c1, id, append(akashtypes.Attributes{}, attrs...)))
	for try := 0; try < c07tries(); try++ { // natively Go picks the map order: repeat to observe several
		c2 := verif_ForkContext(base).WithEventManager(sdk.NewEventManager())
		r2 := c07read(c2, k, id, k.CreateOrUpdateProviderAttributes(c2, id, append(akashtypes.Attributes{}, attrs...)))
		c07same(r1, r2)
	}
	verif_MapOrderChoice(false)
	verif_Reach("updated-twice")
}

func c07delete(nOld, nKeys int) {
	base, k, id := c07env(nOld)
	var keys []string
	for i := 0; i < nKeys; i++ {
		keys = append(keys, verif_Str("del-key", 1))
	}
	verif_MapOrderChoice(true)
	c1 := verif_ForkContext(base).WithEventManager(sdk.NewEventManager())
	r1 := c07read(c1, k, id, k.DeleteProviderAttributes(c1, id, keys))
	for try := 0; try < c07tries(); try++ {
		c2 := verif_ForkContext(base).WithEventManager(sdk.NewEventManager())
		r2 := c07read(c2, k, id, k.DeleteProviderAttributes(c2, id, keys))
		c07same(r1, r2)
	}
	verif_MapOrderChoice(false)
	verif_Reach("deleted-twice")
}

func Harness_C07_audit_update_0_2() { c07update(0, 2) }
func Harness_C07_audit_update_1_2() { c07update(1, 2) }
func Harness_C07_audit_update_2_1() { c07update(2, 1) }
func Harness_C07_audit_update_2_2() { c07update(2, 2) }
func Harness_C07_audit_update_3_2() { c07update(3, 2) }
func Harness_C07_audit_delete_2_1() { c07delete(2, 1) }
func Harness_C07_audit_delete_3_1() { c07delete(3, 1) }
func Harness_C07_audit_delete_3_0() { c07delete(3, 0) }
