package validation

//verif:pkg validation

// C10: the provider accepts a manifest group only if, per distinct compute unit, the replica
// totals of manifest and on-chain group are equal and the endpoint counts are equal; and the
// resource comparison never rejects a manifest whose totals are equal, however the tenant
// split or ordered its services.

import (
	"errors"

	sdk "github.com/cosmos/cosmos-sdk/types"

	"github.com/ovrclk/akash/manifest"
	"github.com/ovrclk/akash/types"
	dtypes "github.com/ovrclk/akash/x/deployment/types"
)

type c10unit struct{ cpu, mem, sto sdk.Int }

func c10val(label string) sdk.Int {
	v := verif_Int(label)
	verif_Assume(verif_And(v.GTE(sdk.ZeroInt()), v.LT(sdk.NewIntFromUint64(1<<62))))
	return v
}

func c10newUnit(tag string) c10unit {
	return c10unit{c10val(tag + "-cpu"), c10val(tag + "-mem"), c10val(tag + "-sto")}
}

func (u c10unit) units(eps []types.Endpoint) types.ResourceUnits {
	return types.ResourceUnits{
		CPU:       &types.CPU{Units: types.ResourceValue{Val: u.cpu}},
		Memory:    &types.Memory{Quantity: types.ResourceValue{Val: u.mem}},
		Storage:   &types.Storage{Quantity: types.ResourceValue{Val: u.sto}},
		Endpoints: eps,
	}
}

func (u c10unit) eq(v c10unit) bool {
	return verif_And(u.cpu.Equal(v.cpu), u.mem.Equal(v.mem), u.sto.Equal(v.sto))
}

func c10count(label string) uint32 {
	c := verif_U32(label)
	verif_Assume(verif_And(c >= 1, c <= 1000)) // chain validation: 1 <= count <= MaxUnitCount
	return c
}

func c10run(nd, nm, maxEp int) {
	var du, mu []c10unit
	var dc, mc []uint32
	dg := dtypes.GroupSpec{Name: "g"}
	nShared, nRandom := 0, 0
	for i := 0; i < nd; i++ {
		u := c10newUnit("d")
		c := c10count("d-count")
		var eps []types.Endpoint
		for e := 0; e < verif_Choice("d-endpoints", maxEp+1); e++ {
			if verif_Choice("d-endpoint-kind", 2) == 0 {
				eps = append(eps, types.Endpoint{Kind: types.Endpoint_SHARED_HTTP})
				nShared++
			} else {
				eps = append(eps, types.Endpoint{Kind: types.Endpoint_RANDOM_PORT})
				nRandom++
			}
		}
		du, dc = append(du, u), append(dc, c)
		dg.Resources = append(dg.Resources, dtypes.Resource{Resources: u.units(eps), Count: c})
	}
	mg := manifest.Group{Name: "g"}
	ingress, other := sdk.ZeroInt(), sdk.ZeroInt()
	for j := 0; j < nm; j++ {
		u := c10newUnit("m")
		c := c10count("m-count")
		mu, mc = append(mu, u), append(mc, c)
		svc := manifest.Service{Name: "s", Image: "i", Resources: u.units(nil), Count: c}
		for e := 0; e < verif_Choice("m-exposes", maxEp+1); e++ {
			ex := manifest.ServiceExpose{Port: verif_U16("port"), ExternalPort: verif_U16("external-port"), Global: verif_Bool("global")}
			ex.Proto = []manifest.ServiceProtocol{manifest.TCP, manifest.UDP}[verif_Choice("proto", 2)]
			svc.Expose = append(svc.Expose, ex)
			// documented rule: a global TCP expose on external port 80 (the container port when no
			// external port is given) is served by the shared HTTP ingress; every other global expose
			// needs a port of its own
			ext := verif_IteI64(ex.ExternalPort == 0, int64(ex.Port), int64(ex.ExternalPort))
			isIngress := verif_And(ex.Global, ex.Proto == manifest.TCP, ext == 80)
			ingress = ingress.Add(verif_IteInt(isIngress, sdk.OneInt(), sdk.ZeroInt()))
			other = other.Add(verif_IteInt(verif_And(ex.Global, !isIngress), sdk.OneInt(), sdk.ZeroInt()))
		}
		mg.Services = append(mg.Services, svc)
	}
	err := validateManifestDeploymentGroup(mg, dg)

	// oracle: totals per distinct unit
	all := append(append([]c10unit{}, du...), mu...)
	totals := true
	for _, w := range all {
		sd, sm := sdk.ZeroInt(), sdk.ZeroInt()
		for i := range du {
			sd = sd.Add(verif_IteInt(du[i].eq(w), sdk.NewIntFromUint64(uint64(dc[i])), sdk.ZeroInt()))
		}
		for j := range mu {
			sm = sm.Add(verif_IteInt(mu[j].eq(w), sdk.NewIntFromUint64(uint64(mc[j])), sdk.ZeroInt()))
		}
		totals = verif_And(totals, sd.Equal(sm))
	}
	endpoints := verif_And(ingress.Equal(sdk.NewInt(int64(nShared))), other.Equal(sdk.NewInt(int64(nRandom))))
	if err == nil {
		verif_Reach("accepted")
		verif_Assert(totals, "C10 accepted manifest group has exactly the on-chain replica totals per compute unit")
		verif_Assert(endpoints, "C10 accepted manifest group has exactly the on-chain endpoint counts")
	} else {
		verif_Reach("rejected")
		verif_Assert(verif_Implies(totals, !errors.Is(err, ErrManifestCrossValidation)), "C10 a manifest whose per-unit totals equal the chain's is never rejected by the resource comparison")
	}
	verif_ObserveBool("accepted", err == nil)
}

func Harness_C10_1x1()       { c10run(1, 1, 1) }
func Harness_C10_1x2()       { c10run(1, 2, 1) }
func Harness_C10_2x1()       { c10run(2, 1, 1) }
func Harness_C10_2x2()       { c10run(2, 2, 0) }
func Harness_C10_2x3()       { c10run(2, 3, 0) }
func Harness_C10_3x2()       { c10run(3, 2, 0) }
func Harness_C10_3x3()       { c10run(3, 3, 0) }
func Harness_C10_endpoints() { c10run(1, 1, 2) }

// group-name matching across the whole manifest
func Harness_C10_groups() {
	names := []string{"a", "b", "c"}
	nd, nm := 1+verif_Choice("n-dgroups", 2), 1+verif_Choice("n-mgroups", 2)
	u := c10unit{sdk.NewInt(100), sdk.NewInt(1 << 20), sdk.NewInt(1 << 20)}
	// the on-chain groups as the provider fetches them: every group of the deployment, whatever
	// its state (a closed or paused group is still part of what the chain agreed)
	var dgs []dtypes.Group
	var dn, mn []string
	states := []dtypes.Group_State{dtypes.GroupOpen, dtypes.GroupPaused, dtypes.GroupInsufficientFunds, dtypes.GroupClosed}
	for i := 0; i < nd; i++ {
		n := names[verif_Choice("d-name", 3)]
		dn = append(dn, n)
		dgs = append(dgs, dtypes.Group{State: states[verif_Choice("d-state", 4)],
			GroupSpec: dtypes.GroupSpec{Name: n, Resources: []dtypes.Resource{{Resources: u.units(nil), Count: 1}}}})
	}
	var mgs []manifest.Group
	for j := 0; j < nm; j++ {
		n := names[verif_Choice("m-name", 3)]
		mn = append(mn, n)
		mgs = append(mgs, manifest.Group{Name: n, Services: []manifest.Service{{Name: "s", Image: "i", Resources: u.units(nil), Count: 1}}})
	}
	mani := manifest.Manifest(mgs)
	err := ValidateManifestWithDeployment(&mani, dgs)
	same := nd == nm
	for i := range dn {
		for j := range dn {
			same = same && (i == j || dn[i] != dn[j])
		}
	}
	for _, m := range mn {
		found := false
		for _, d := range dn {
			found = found || d == m
		}
		same = same && found
	}
	for i := range mn {
		for j := range mn {
			same = same && (i == j || mn[i] != mn[j])
		}
	}
	if same {
		verif_Reach("groups-equal")
		verif_Assert(err == nil, "C10 a manifest whose groups are exactly the on-chain groups is not rejected")
	}
	if err == nil {
		verif_Reach("groups-accepted")
		verif_Assert(nd == nm, "C10 accepted manifest has as many groups as the deployment")
		for _, m := range mn {
			found := false
			for _, d := range dn {
				found = found || d == m
			}
			verif_Assert(found, "C10 every manifest group names an on-chain group")
		}
	} else {
		verif_Reach("groups-rejected")
	}
}
