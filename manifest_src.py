CLAIMS = {
    "C02": {
        "text": "Bounded symbolic execution of the real settlement functions (accountSettleFullblocks / DistributeWeighted / DistributeEvenly) from SSA over unbounded-integer balances, rates and block gaps for 1..3 (thorough: 4) open payments; every clause of the metering statement is an SMT obligation proved unsat-negated on every path; passing-path models are replayed natively to validate the encoder.",
        "note": "Trusted: the engine's SSA semantics, the exact-integer model of sdk.Int (no 2^255 overflow; amounts bounded to 2^100, gaps to 2^62), SMT solvers. Keeper-level and handler-level histories are covered by the chain-step checks when present.",
    },
}
NOT_APPLICABLE = {}
NOTES = "Work in progress: checks are added property by property; see DESIGN.md §9 for deviations from the plan."
