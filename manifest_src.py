CLAIMS = {
    "C02": {
        "text": "Bounded symbolic execution of the real settlement functions (accountSettleFullblocks / DistributeWeighted / DistributeEvenly) from SSA over unbounded-integer balances, rates and block gaps for 1..3 (thorough: 4) open payments; every clause of the metering statement is an SMT obligation proved unsat-negated on every path; passing-path models are replayed natively to validate the encoder.",
        "note": "Trusted: the engine's SSA semantics, the exact-integer model of sdk.Int (no 2^255 overflow; amounts bounded to 2^100, gaps to 2^62), SMT solvers. Keeper-level and handler-level histories are covered by the chain-step checks when present.",
    },
}
CLAIMS["C19"] = {
    "text": "Symbolic execution of MsgCreateDeployment.ValidateBasic and ValidateDeploymentGroups (with ValidateResourceList, validateResourceGroup/Unit/CPU/Memory/Storage, validateGroupPricing/UnitPricing) over symbolic groups/units (unbounded-integer cpu/memory/storage/price, any uint32 count, names, denoms, version lengths, nil units, MaxGroupCount+1 groups, MaxGroupUnits+1 units); obligation: accepted implies an independent oracle of every documented limit whose constants are read from the real validationConfig.",
    "note": "Trusted: engine SSA semantics, integer model of sdk.Int, bech32 modelled as a bijection. Bounded to <=2 (thorough 3) groups x <=2 units with symbolic content. Store effects of the handler are covered by the chain-step checks.",
}
CLAIMS["C12"] = {
    "text": "Symbolic execution of inventoryService.getStatus, reservationAllocateable/AdjustInventory/CountEndpoints and ResourceUnits.Add/Sub on symbolic node capacities and reservations; obligations: status queries leave reservations unchanged and are repeatable, one entry per reservation with the sum of its records; a granted reservation implies that a placement of every pending and new replica on the nodes exists (existential expanded over the bounded instance) and endpoints fit the free ports.",
    "note": "Trusted: engine SSA semantics (exact pointer aliasing), integer model. Bounds: <=2 nodes, <=2 reservations, <=2 (thorough 3) records, replica count 1..2. The select loop of the service and the float commit-level kernel are not yet covered here.",
}
CLAIMS["C17"] = {
    "text": "One inductive step of the certificate module from an arbitrary store state (0..2, thorough 3, certificates with symbolic serials/owners/states) through the real keeper, message validation and every listing/lookup path, on the engine's KV-store and codec models; obligations: registration only by the named account, uniqueness per owner+serial, revocation only valid->revoked for the named owner, nothing removed, every certificate found and listed with correct serial and state, listings never fail.",
    "note": "Trusted: store model (ordered association list), codec model (deep copy), certificate tokens instead of X.509/PEM bytes, bech32 bijection. Serials bounded to 3 bytes (thorough 9); 2^159 is outside the bound. Pagination is outside.",
}
CLAIMS["C03"] = {
    "text": "One inductive step of the real escrow keeper (all seven public operations) from an arbitrary store state satisfying the invariant, at an arbitrary height (gap 0 included), on the engine's store/codec models with a ledger bank; obligations: payment open only under an open account, closed/overdrawn records have zero balance and never change, a successful close takes effect (same-block and zero-balance cases are forced reach labels), nothing is removed, and the real ValidateGenesis accepts the real ExportGenesis of the post-state.",
    "note": "Trusted: store/codec/context models, ledger bank contract, bech32 bijection, integer model; histories are covered by induction over the stated invariant (an invariant state that no history reaches could only cause a spurious alarm, none occurs on the unchanged tree). <=2 payments on the focus account per step.",
}
CLAIMS["C01"] = {
    "text": "Same keeper-level inductive step as C03 with the conservation clause: after every operation the ledger's escrow-module balance equals the sum of all recorded account and payment balances plus the outside-universe remainder; deposits debit exactly the depositor, payouts go only to parties of the account operated on, failed operations move nothing; plus the settlement-kernel conservation obligations of C02.",
    "note": "Trusted as C03. The bank is the two-method contract of x/escrow/keeper/external.go; The handler-level chain step (all 12 deployment/market handlers with real hooks) asserts the same conservation clause and that only the signer pays in. x/bank internals and fees are outside.",
}
CHAIN_NOTE = "Trusted: engine SSA semantics; store/codec/context/params models; ledger bank contract; bech32 bijection; integer model. Universe: one focus deployment with one group, 1 order slot x 2 providers (thorough: also 2 order slots x 1 provider) plus a bystander deployment whose number (12) collides with the focus (1) as a decimal prefix. Histories are covered by induction over INV; an INV state that no history reaches can only cause a spurious alarm (none on the unchanged tree), never hide a violation of the step."
CLAIMS["C04"] = {
    "text": "Handler-level inductive step: each of the 12 deployment and market message handlers (real msg servers, keepers and escrow hooks wired as in app.setAkashKeepers) is executed symbolically for one message from an arbitrary pre-state satisfying the invariant (record presence enumerated, every state and number symbolic); after every accepted message each record-agreement clause of the statement (L1-L6 of DESIGN Appendix A) and the never-reopens clauses are SMT obligations.",
    "note": CHAIN_NOTE,
}
CLAIMS["C05"] = {
    "text": "Same handler-level inductive step with the money-follows-lifecycle clauses: lease active iff its payment is open, bid open/matched iff its deposit account is open, deployment active iff its escrow account is open, checked after every accepted message including overdraft hooks and several actions in one block (height gap 0 is inside the symbolic range); plus the keeper-level hook obligations of the escrow step.",
    "note": CHAIN_NOTE,
}
CLAIMS["C06"] = {
    "text": "Four solver-decided parts: (1) GetSigners of all 19 message types on arbitrary symbolic addresses returns exactly the party the statement assigns; (2) in the handler-level and escrow-level inductive steps only the signer's balance can decrease and only the signer pays into escrow; (3) frame: every record and escrow balance of a bystander deployment whose number collides as a decimal prefix (1 vs 12) is unchanged by every handler; (4) key separation on the real key-building code with fully symbolic identifiers: a key lies under a prefix iff it belongs to that parent, keys are injective, key spaces are disjoint (market, deployment, escrow with 1..3-digit decimal ids, audit, cert).",
    "note": CHAIN_NOTE + " Bit-vector encoding for sequence numbers through encoding/binary; decimal ids are arbitrary canonical digit strings (1..3 digits quick, 1..5 thorough).",
}
CLAIMS["C07"] = {
    "text": "Determinism as a 2-run self-composition decided by the solver: the same message is executed twice from the same symbolic state on forked contexts, every Go map range inside the code under test becomes a choice point explored in all orders independently for both runs, and state, result, events and transfers must be equal: all deployment/market handlers (no choice point is met) and the two audit-keeper operations that range over maps (all permutations of <=3 entries).",
    "note": "Trusted: engine SSA semantics incl. the real sort algorithms; map order is the only non-determinism source modelled (time, randomness, goroutines are not reachable from the handlers: reaching one ends the path unsupported and is reported). Native confirmation of a counterexample repeats the real execution up to 64 times because Go's map order cannot be forced.",
}
CLAIMS["C16"] = {
    "text": "In the handler-level inductive step the real EventManager's events are decoded with the provider's own parsers (sdk.StringifyEvent, sdkutil.ParseEvent, market/deployment ParseEvent) and compared with the pre/post difference of every record: created/closed/paused/started/updated events are emitted exactly once for exactly the objects that changed that way (including changes made inside escrow hooks), carry the object's id and price, and every emitted marketplace event decodes.",
    "note": CHAIN_NOTE + " Prices are symbolic (decimal formatting/parsing modelled as mutually inverse); identifiers in events are the concrete universe ids. Provider and audit events are not covered.",
}
CLAIMS["C08"] = {
    "text": "Bid admission as a one-directional oracle decided by the solver: the real MsgCreateBid.ValidateBasic + market CreateBid handler (with real provider and audit keepers on the store model) are executed on symbolic order state, provider registration, bidder identity, price/deposit amounts and denominations, required/own/attested attributes and all-of/any-of auditor lists; accepted implies every condition of the statement. The attribute kernel GroupSpec.MatchRequirements is checked separately against a set-based oracle with symbolic keys/values; the provider UpdateProvider handler is checked to keep covering the requirements of every active lease.",
    "note": CHAIN_NOTE + " One-directional: a stricter admission rule is not flagged. Attribute keys are concrete in the handler harness (regexp validation evaluated natively), symbolic 1-byte in the kernel.",
}
CLAIMS["C10"] = {
    "text": "Symbolic execution of the real manifest/deployment cross-validation (validateManifestDeploymentGroup with the generated CPU/Memory/Storage.Equal, util.ShouldBeIngress, validateManifestDeploymentGroups) over symbolic resource units, replica counts and exposes; obligations in both directions the statement gives: accepted implies equal per-unit replica totals and equal endpoint counts, and equal totals imply the rejection is not a resource cross-validation error, whatever the split or order.",
    "note": "Trusted: engine SSA semantics, integer model. Bounds 2x2 (thorough 3x3) records x services. The hash part of the statement (serialization-order independence, sensitivity to every field) runs through reflection-driven json.Marshal, SortJSON and SHA-256 and is NOT covered by this family; the version comparison in the manifest manager is covered with C20.",
}
CLAIMS["C18"] = {
    "text": "Symbolic execution of (*v2).DeploymentGroups and (*v2).Manifest (with toResourceUnits, ParseServiceProtocol, ShouldBeIngress, the real sort code) on a decoded SDL value with symbolic leaves; obligations: every declared image/command/argument/env/exposure/count/resources/price appears unchanged at its place in the outputs; for valid documents the real ValidateManifestWithGroupSpecs accepts the manifest against the groups of the same document; and, as a 2-run self-composition over every Go map iteration order, groups and manifest are identical on every run.",
    "note": "Trusted: engine SSA semantics, sort via real code, regexps evaluated natively on concrete names. Bounds: <=2 services x <=2 placements x <=2 profiles, 1..2 exposes. YAML decoding, unit-string parsing and the version hash are outside this family (stated); key reordering is covered as Go map order.",
}
LOOP_NOTE = "Trusted: engine SSA semantics; the single-goroutine environment model (goroutine bodies run atomically at scheduler-chosen points; true interleavings inside a component and data races are outside); harness stubs for collaborators. Counterexample schedules are replayed natively against the real goroutines with gated stubs."
CLAIMS["C13"] = {
    "text": "Bounded symbolic exploration of the real (*order).run select loop: at every select the solver-driven scheduler picks among ready channels and pending goroutine tasks, so chain events (6 kinds), completion or failure of every asynchronous step, the bid timeout and shutdown arrive at every point of the pipeline, including after the loop has exited; obligations on the collaborator call log: at most one bid, never above the maximum price, only after a successful reservation, and when the order ends without a won lease every reservation is released and a close-bid is submitted for a placed bid; the function returns.",
    "note": LOOP_NOTE + " Depth: 7/8 selects quick, 9/10 thorough, <=2 events.",
}
CLAIMS["C14"] = {
    "text": "Bounded symbolic exploration of the real (*deploymentManager).run loop (with startDeploy/startTeardown/do/doDeploy/doTeardown): manifest updates, the lease-closed request, hostname-reservation results, deploy/teardown completions or failures and provider shutdown arrive in every scheduler-chosen order; obligations on the cluster-client call log: never two operations in flight, no deploy starts after teardown was requested, teardown only after the last deploy finished, a closed lease is torn down and its hostnames released, and when the manager goes idle without close or failure the last deploy used the most recently received manifest.",
    "note": LOOP_NOTE + " Depth 5 selects quick, 6 and 8 thorough; goroutine tasks complete in spawn order. The cluster service's release of the reservation on manager completion is not covered.",
}
CLAIMS["C20"] = {
    "text": "Bounded symbolic exploration of the real manifest (*manager).run loop with validateRequests/validateRequest (real validators and version comparison), emitReceivedEvents, fillAllRequests and maybeFetchData: lease notifications, submissions (valid, other version, invalid), version updates, lease removals, fetch completions or failures and shutdown arrive in every scheduler-chosen order; obligations: every submission has exactly one reply when the manager terminates or goes idle (a second reply on the full capacity-1 channel is a blocked-forever outcome), the manager never hangs, and a manifest is announced only with a held lease, fetched chain data and a validated manifest.",
    "note": LOOP_NOTE + " Depth 5 selects quick, 6-7 thorough. sdl.ManifestVersion is an injective tag in the engine (the hash itself is outside the family); the version COMPARISON in validateRequest (C10's first clause) runs for real.",
}
NOT_APPLICABLE = {}
NOTES = "Work in progress: checks are added property by property; see DESIGN.md §9 for deviations from the plan."
